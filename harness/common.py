"""Shared helpers for harnesses: stub MeshRegion construction, symbolic MultiLocationArrays."""
import contextlib
import types

import numpy

from symx import core, npproxy
from symx.npproxy import NumpyProxy, patched

import hypnotoad.core.multilocationarray as mla_mod
import hypnotoad.core.mesh as mesh_mod
import hypnotoad.core.equilibrium as eq_mod
from hypnotoad.core.multilocationarray import MultiLocationArray

PROXY = NumpyProxy(numpy)
npproxy.install_fake_matplotlib()

LOCSHAPE = {
    "centre": lambda nx, ny: (nx, ny),
    "xlow": lambda nx, ny: (nx + 1, ny),
    "ylow": lambda nx, ny: (nx, ny + 1),
    "corners": lambda nx, ny: (nx + 1, ny + 1),
}


@contextlib.contextmanager
def sym_numpy(env, *modules):
    """in symbolic mode rebind `numpy` inside the given hypnotoad modules to the object-dtype proxy"""
    if env.mode != "sym":
        yield
        return
    mods = modules or (mla_mod, mesh_mod)
    with patched(*[(m, "numpy", PROXY) for m in mods]):
        yield


def mk_mla(env, nx, ny, name, locs=("centre", "ylow"), **kw):
    """MultiLocationArray whose listed locations are filled with fresh inputs name_loc_i_j"""
    m = MultiLocationArray(nx, ny)
    for loc in locs:
        arr = getattr(m, loc)
        for idx in numpy.ndindex(arr.shape):
            arr[idx] = env.real("%s_%s_%d_%d" % ((name, loc) + idx), **kw)
    return m


def mla_from(env, nx, ny, fn, locs=("centre", "ylow")):
    """MultiLocationArray filled by fn(loc, i, j)"""
    m = MultiLocationArray(nx, ny)
    for loc in locs:
        arr = getattr(m, loc)
        for idx in numpy.ndindex(arr.shape):
            arr[idx] = fn(loc, *idx)
    return m


def stub_region(nx=1, ny=1, orthogonal=True, **opts):
    r = mesh_mod.MeshRegion.__new__(mesh_mod.MeshRegion)
    o = dict(shiftedmetric=True, orthogonal=orthogonal, geometry_rtol=1.0e-10, cap_Bp_ylow_xpoint=False,
             curvature_type="curl(b/B)", curvature_smoothing=None)
    o.update(opts)
    r.user_options = types.SimpleNamespace(**o)
    r.nx = nx
    r.ny = ny
    r.name = "stub"
    r.radialIndex = 0
    r.myID = 0
    r.yGroupIndex = 1
    r.connections = {"inner": None, "outer": None, "lower": None, "upper": None}
    r.equilibriumRegion = types.SimpleNamespace(xPointsAtStart=[None, None], xPointsAtEnd=[None, None], name="stub")
    return r
