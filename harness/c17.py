"""C17 - geqdsk write/read: token languages decided with z3 regular expressions built from the source's own pattern and
format strings; fixed-width header decided with z3 strings; layout/order by running the real write() and read() on
symbolic payloads with the float<->text step replaced by an injective token pair."""
import ast
import inspect
import io
import re
import textwrap

import numpy
import z3

from symx import core, regex
from symx.core import SymBool, SymReal
from symx.npproxy import patched
from symx.runner import registry, Ob

import hypnotoad.geqdsk._fileutils as fu
import hypnotoad.geqdsk._geqdsk as gq

OBLIGATIONS, obligation = registry()

META = {
    "explanation": "Reader pattern and writer formats are read from the current source (AST) and translated to z3 regular expressions / "
                   "string terms; real _geqdsk.write and read run on symbolic values with f2s/float() replaced by an injective token pair.",
    "bounds": "float tokens with 2-digit exponents (3-digit exponents reported separately, outside the property's stated domain); continuation strings <= 20 chars; "
              "header: nx, ny as digit strings of length 1..5; layout: nx,ny in 1..4 (quick) / 1..7 (thorough), nbdry,nlim in 0..3, optional keys present/absent",
    "out": "that printf('%1.9E') followed by float() reproduces a double to ten significant digits (C library)",
    "assumptions": ["C printf %1.<p>E produces -?d.d{p}E[+-]dd(d) for finite doubles (validated against the real f2s on sample floats each run)",
                    "Python's re picks, for this pattern shape, the greedy sign, the maximal digit run and the group when it matches",
                    "injective token pair for f2s/float justified by the token-language obligations"],
}


def source_pattern():
    src = textwrap.dedent(inspect.getsource(fu.next_value))
    for node in ast.walk(ast.parse(src)):
        if isinstance(node, ast.Call) and getattr(node.func, "attr", None) == "compile":
            return node.args[0].value
    raise core.HarnessError("reader pattern not found in next_value")


def source_float_format():
    src = textwrap.dedent(inspect.getsource(fu.f2s))
    for node in ast.walk(ast.parse(src)):
        if isinstance(node, ast.Constant) and isinstance(node.value, str) and "%" in node.value:
            m = re.fullmatch(r"%(\d+)\.(\d+)E", node.value)
            if not m:
                raise core.HarnessError("unexpected float format %r" % node.value)
            return node.value, int(m.group(2))
    raise core.HarnessError("float format not found in f2s")


def f2s_language(exp_digits=(2, 2)):
    fmt, prec = source_float_format()
    E = regex.printf_E(prec, exp_digits)
    # f2s: a leading blank is added when f >= 0 (then printf emits no '-')
    Epos = z3.Concat(regex.DIGIT, z3.Re("."), z3.Loop(regex.DIGIT, prec, prec), z3.Re("E"), z3.Union(z3.Re("+"), z3.Re("-")),
                     z3.Loop(regex.DIGIT, exp_digits[0], exp_digits[1]))
    return z3.Union(z3.Concat(z3.Re(" "), Epos), z3.Concat(z3.Re("-"), Epos)), prec


def split_group(pattern):
    """pattern = head (?:group)?  ->  (head, group)"""
    m = re.fullmatch(r"(.*)\(\?:(.*)\)\?", pattern)
    if not m:
        raise core.HarnessError("pattern shape changed: %r" % pattern)
    return m.group(1), m.group(2)


def validate_models():
    """translator validation: real f2s on sample floats is in the modelled language; real re agrees with the z3 regex on samples"""
    import random
    rng = random.Random(1)
    lang, _ = f2s_language((2, 3))
    pat = source_pattern()
    zpat = regex.to_z3(pat)
    n = 0
    for k in range(60):
        f = rng.choice([0.0, 1.0, -1.0, 1e-99, -3.5e99, 123456.789]) if k < 6 else rng.uniform(-1, 1) * 10 ** rng.randint(-120, 120)
        t = fu.f2s(f)
        s = z3.Solver()
        s.add(z3.Not(z3.InRe(z3.StringVal(t), lang)))
        if str(s.check()) != "unsat":
            raise core.HarnessError("f2s(%r)=%r not in modelled language" % (f, t))
        n += 1
    for t in [" 1.0E+00", "12", " -3", "1.5", "+7", " 1.000000000E+00", "-1.000000000e-05", "abc", "1.0E+0", ""]:
        s = z3.Solver()
        s.add(z3.InRe(z3.StringVal(t), zpat))
        if (str(s.check()) == "sat") != bool(re.fullmatch(pat, t)):
            raise core.HarnessError("regex translation disagrees with re on %r" % t)
        n += 1
    return n


def ZB(env, term, conc):
    return SymBool(term) if env.mode == "sym" else bool(conc())


def ob_tokens(env):
    env.use_ratfun = False
    pat = source_pattern()
    cpat = re.compile(pat)
    zpat = regex.to_z3(pat)
    head, grp = split_group(pat)
    zwith = z3.Concat(regex.to_z3(head), regex.to_z3(grp))
    lang, prec = f2s_language((2, 2))
    env.notes.append("validated %d samples (real f2s in language; z3 regex == re)" % validate_models())
    t1, u, p = env.string("t1", " 1.000000000E+00"), env.string("u"), env.string("p")
    if env.mode == "sym":
        env.add(z3.Length(u) <= 20)
    in_lang = (lambda t: bool(re.fullmatch(r"[ \-]\d\.\d{%d}E[+\-]\d\d" % prec, t)))
    # (a) every float token the writer can produce is a full match of the reader's pattern
    env.claim("float_token_matches_reader_pattern",
              ZB(env, z3.Implies(z3.InRe(t1, lang), z3.InRe(t1, zpat)) if env.mode == "sym" else None,
                 lambda: (not in_lang(t1)) or bool(cpat.fullmatch(t1))))
    # (b) abutting numbers split correctly: the (grouped) match at offset 0 of t1+u is exactly t1
    env.claim("match_at_start_of_abutting_text_is_the_token",
              ZB(env, z3.Implies(z3.And(z3.InRe(t1, lang), z3.PrefixOf(p, z3.Concat(t1, u)), z3.InRe(p, zwith)), p == t1) if env.mode == "sym" else None,
                 lambda: (not in_lang(t1)) or cpat.match(t1 + u).group(0) == t1))
    # (c) the type decision: a float token contains '.', an integer token as ChunkOutput writes it does not and matches as int
    # integers are written by ChunkOutput as "   " + str(n); the reader's match is the last blank (taken as sign) + digits
    e = env.string("e", " 12")
    ints = z3.Concat(z3.Re(" "), z3.Union(z3.Re("0"), z3.Concat(z3.Range("1", "9"), z3.Star(regex.DIGIT))))
    if env.mode == "sym":
        env.add(z3.Length(e) <= 8)
    is_int = (lambda x: bool(re.fullmatch(r" (0|[1-9]\d*)", x)))
    env.claim("float_token_has_dot", ZB(env, z3.Implies(z3.InRe(t1, lang), z3.InRe(t1, z3.Concat(z3.Full(z3.ReSort(z3.StringSort())), z3.Re("."), z3.Full(z3.ReSort(z3.StringSort()))))) if env.mode == "sym" else None,
                                        lambda: (not in_lang(t1)) or "." in t1))
    env.claim("int_token_is_matched_and_has_no_dot",
              ZB(env, z3.Implies(z3.InRe(e, ints), z3.And(z3.Not(z3.InRe(e, z3.Concat(z3.Full(z3.ReSort(z3.StringSort())), z3.Re("."), z3.Full(z3.ReSort(z3.StringSort()))))), z3.InRe(e, zpat))) if env.mode == "sym" else None,
                 lambda: (not is_int(e)) or ("." not in e and cpat.findall("  " + e) == [e])))
    # an int token followed by a float token: no grouped (float) match can start inside the int token
    env.claim("int_then_float_split",
              ZB(env, z3.Not(z3.And(z3.InRe(e, ints), z3.InRe(t1, lang), z3.PrefixOf(p, z3.Concat(e, t1, u)), z3.InRe(p, zwith))) if env.mode == "sym" else None,
                 lambda: (not (is_int(e) and in_lang(t1))) or cpat.findall("  " + e + t1)[:2] == [e, t1]))
    env.witness("token_queries_built")


def ob_exponent3(env):
    """scope note, not a claim of the property: 3-digit exponents split wrongly"""
    env.use_ratfun = False
    pat = source_pattern()
    head, grp = split_group(pat)
    zwith = z3.Concat(regex.to_z3(head), regex.to_z3(grp))
    lang3, prec = f2s_language((3, 3))
    t1, p = env.string("t1"), env.string("p")
    if env.mode == "sym":
        env.add(z3.InRe(t1, lang3), z3.PrefixOf(p, t1), z3.InRe(p, zwith), p != t1)
    env.witness("three_digit_exponent_token_is_split_short")


# ---------------------------------------------------------------------------------------------
def header_format():
    src = textwrap.dedent(inspect.getsource(gq.write))
    for node in ast.walk(ast.parse(src)):
        if isinstance(node, ast.Constant) and isinstance(node.value, str) and "{6:" in node.value:
            fields = re.findall(r"\{(\d):([^}]*)\}", node.value)
            return node.value, fields
    raise core.HarnessError("header format not found")


def _digits(n):
    """number of decimal digits of a positive z3 Int (up to 6)"""
    return z3.If(n < 10, 1, z3.If(n < 100, 2, z3.If(n < 1000, 3, z3.If(n < 10000, 4, z3.If(n < 100000, 5, 6)))))


def _real_header_roundtrip(nx, ny):
    import contextlib
    data = _concrete_data(nx, ny)
    fh = io.StringIO()
    # only the header line is needed: write it with the real format by running the real write() on lazy constant arrays of size 1
    hdr_only = dict(data)
    with contextlib.redirect_stdout(io.StringIO()):
        gq.write(hdr_only, fh)
        fh.seek(0)
        try:
            back = gq.read(fh)
            return back["nx"] == nx and back["ny"] == ny
        except Exception:
            return False


def _mk_header(upto999):
    """Model: the fields are written with str.format '{:Wd}' (width W read from the source's header format string), which
    right-justifies and never truncates; the reader takes the last three whitespace-separated words, or - if the current tree's reader does so
    (probed on three sizes) - the three fixed-width fields when one of them is filled completely.  Without that, a field is separated from
    its left neighbour iff it has fewer digits than its width.  The model is validated against the real write()/read() on boundary
    sizes every run; z3 then decides over all nx, ny."""
    def body(env):
        env.use_ratfun = False
        fmt, fields = header_format()
        w = {int(i): spec for i, spec in fields}
        widths = [int(re.fullmatch(r"(\d+)d", w[k]).group(1)) for k in (4, 5, 6)]
        # the field before idum is the time string, left-justified in 16: idum (=3, one digit) is always separated
        if env.mode == "sym":
            # does the reader of the current tree separate fields that fill their whole width (values with as many digits as the field is wide)?
            full_width_ok = all(_real_header_roundtrip(a, b) for (a, b) in [(1000, 7), (7, 1000), (1234, 3)])
            for (a, b) in [(1, 1), (9, 10), (99, 100), (999, 7), (7, 999), (1000, 7), (7, 1000), (12, 1234), (9999, 2), (2, 9999)]:
                if full_width_ok:
                    model_ok = len(str(a)) <= widths[1] and len(str(b)) <= widths[2]
                else:
                    model_ok = len(str(a)) < widths[1] and len(str(b)) < widths[2]
                if _real_header_roundtrip(a, b) != model_ok:
                    raise core.HarnessError("header model disagrees with real write/read for nx=%d ny=%d" % (a, b))
            env.notes.append("header model validated against real write/read on 10 boundary sizes; widths from source: %s; reader handles full-width fields: %s" % (widths, full_width_ok))
        # (sizes with more digits than the i4 fields are wide are not representable in the format: outside the property)
        nx, ny = env.int("nx", lo=1, hi=10 ** widths[1] - 1), env.int("ny", lo=1, hi=10 ** widths[2] - 1)
        if env.mode == "sym":
            small = z3.And(core.lift_int(nx) <= 999, core.lift_int(ny) <= 999)
            env.add(small if upto999 else z3.Not(small))
            dn, dm = _digits(core.lift_int(nx)), _digits(core.lift_int(ny))
            ok = z3.And(dn <= widths[1], dm <= widths[2], 1 < widths[0]) if full_width_ok else z3.And(dn < widths[1], dm < widths[2], 1 < widths[0])
            env.witness("sizes_in_this_class_exist")
            env.claim("header_roundtrips_nx_ny", SymBool(ok))
        else:
            env.claim("header_roundtrips_nx_ny", _real_header_roundtrip(int(nx), int(ny)))
    return body


def _concrete_data(nx, ny, small=True):
    d = {k: 1.5 for k in ("rdim", "zdim", "rcentr", "rleft", "zmid", "rmagx", "zmagx", "simagx", "sibdry", "bcentr", "cpasma")}
    d.update(nx=nx, ny=ny)
    class Lazy:  # a 1-D/2-D array of a constant without allocating nx*ny floats when nx is huge
        def __init__(self, *shape):
            self.shape = shape
        def __len__(self):
            return self.shape[0]
        def __getitem__(self, i):
            return 0.25
    for k in ("fpol", "pres", "qpsi"):
        d[k] = Lazy(nx)
    d["psi"] = Lazy(nx, ny)
    return d


# ---------------------------------------------------------------------------------------------
class Tokens:
    """injective text<->value pair standing in for f2s / float()"""

    def __init__(self):
        self.vals = []

    def f2s(self, v):
        self.vals.append(v)
        return " <#%05d#######>" % (len(self.vals) - 1)  # 16 characters like a real token

    def next_value(self, fh):
        pat = re.compile(r" <#(\d{5})#######>|[ +\-]?\d+")
        for line in fh:
            for m in pat.finditer(line):
                if m.group(1) is not None:
                    yield self.vals[int(m.group(1))]
                else:
                    yield int(m.group(0))


def ozeros(shape):
    a = numpy.empty(shape, dtype=object)
    a[...] = 0.0
    return a


SCALARS = ["rdim", "zdim", "rcentr", "rleft", "zmid", "rmagx", "zmagx", "simagx", "sibdry", "bcentr", "cpasma"]


def _mk_layout(nx, ny, nbdry, nlim, optional):
    def body(env):
        env.use_ratfun = False
        sym = env.mode == "sym"
        mkarr = (lambda name, *shape: _symarr(env, name, shape))
        data = {k: env.real(k) for k in SCALARS}
        data.update(nx=nx, ny=ny)
        for k in ("fpol", "pres", "qpsi") + (("ffprime", "pprime") if optional else ()):
            data[k] = mkarr(k, nx)
        data["psi"] = mkarr("psi", nx, ny)
        if nbdry:
            data["rbdry"], data["zbdry"] = mkarr("rbdry", nbdry), mkarr("zbdry", nbdry)
        if nlim:
            data["rlim"], data["zlim"] = mkarr("rlim", nlim), mkarr("zlim", nlim)
        fh = io.StringIO()
        if sym:
            tk = Tokens()
            with patched((gq, "f2s", tk.f2s), (fu, "f2s", tk.f2s), (gq, "next_value", tk.next_value), (gq, "zeros", ozeros)):
                gq.write(data, fh)
                text = fh.getvalue()
                fh.seek(0)
                back = gq.read(fh)
        else:
            import contextlib
            with contextlib.redirect_stdout(io.StringIO()):
                gq.write(data, fh)
                text = fh.getvalue()
                fh.seek(0)
                back = gq.read(fh)
        env.witness("roundtrip_ran")
        env.claim("nx_ny", back["nx"] == nx and back["ny"] == ny)
        tol = 1e-9
        for k in SCALARS:
            env.claim("scalar:" + k, env.close(back[k], data[k], tol))
        for k in ("fpol", "pres", "qpsi", "ffprime", "pprime"):
            for i in range(nx):
                want = data[k][i] if k in data else 0.0
                env.claim("profile:" + k, env.close(back[k][i], want, tol))
        for i in range(nx):
            for j in range(ny):
                env.claim("psi[x,y]_index_order", env.close(back["psi"][i, j], data["psi"][i, j], tol))
        for k, n in (("rbdry", nbdry), ("zbdry", nbdry), ("rlim", nlim), ("zlim", nlim)):
            if n:
                for i in range(n):
                    env.claim("points:" + k, env.close(back[k][i], data[k][i], tol))
            else:
                env.claim("absent_block_stays_absent:" + k, k not in back)
        # 5-per-line chunking: no line holds more than 5 tokens, header apart
        lines = text.split("\n")[1:]
        env.claim("at_most_5_values_per_line", all(len(re.findall(r"<#|\d\.\d{9}E", ln)) <= 5 for ln in lines))
    return body


def _symarr(env, name, shape):
    a = numpy.empty(shape, dtype=object if env.mode == "sym" else float)
    for idx in numpy.ndindex(*shape):
        a[idx] = env.real(name + "".join("_%d" % i for i in idx), lo=-99, hi=99)
    return a


def _mk_read_geqdsk(nx, ny, nlim):
    """read_geqdsk maps the file onto R, Z, psi(R,Z), the psi profile grid and the wall as the format defines (AST slice up to the
    constructor call, geq_read stubbed by a symbolic data dictionary)"""
    def body(env):
        import ast
        import types
        from symx import slices
        from harness.common import PROXY
        import hypnotoad.cases.tokamak as tok
        sym = env.mode == "sym"
        fn, info = slices.slice_function(tok.read_geqdsk, lambda n: isinstance(n, ast.Assign) and "geq_read(filehandle)" in ast.unparse(n),
                                         lambda n: isinstance(n, ast.Try), ["filehandle", "geq_read", "TokamakEquilibrium"], tok.__dict__, name="read_geqdsk_mapping")
        keys = ["sibdry", "simagx", "rleft", "rdim", "zmid", "zdim"]
        data = {k: env.real(k, lo=-9, hi=9) for k in keys}
        data.update(nx=nx, ny=ny, psi=_symarr(env, "psi", (nx, ny)), pres=_symarr(env, "pres", (nx,)), fpol=_symarr(env, "fpol", (nx,)))
        if nlim:
            data["rlim"], data["zlim"] = _symarr(env, "rlim", (nlim,)), _symarr(env, "zlim", (nlim,))
        text = "HEADER\n 1.0 2.0\n"

        class FH:
            name = "file.geqdsk"

            def __init__(self):
                self.pos = 7

            def seek(self, p):
                self.pos = p

            def read(self):
                out = text[self.pos:]
                self.pos = len(text)
                return out

        class TE:
            pass

        g = fn.__globals__
        saved = g["np"]
        g["np"] = PROXY if sym else numpy
        try:
            loc = fn(FH(), lambda fh: data, TE)
        finally:
            g["np"] = saved
        env.witness("mapped")
        for k in range(nx):
            env.claim_eq("R1D[k]=rleft+k*rdim/(nx-1)", loc["R1D"][k], data["rleft"] + (data["rdim"] * k / (nx - 1) if nx > 1 else 0))
            env.claim_eq("psi1D[k]_from_axis_to_boundary", loc["psi1D"][k], data["simagx"] + ((data["sibdry"] - data["simagx"]) * k / (nx - 1) if nx > 1 else 0))
        for k in range(ny):
            env.claim_eq("Z1D[k]=zmid-zdim/2+k*zdim/(ny-1)", loc["Z1D"][k], data["zmid"] - 0.5 * data["zdim"] + (data["zdim"] * k / (ny - 1) if ny > 1 else 0))
        env.claim("psi2D_is_the_file's_psi_array", loc["psi2D"] is data["psi"])
        env.claim("profiles_passed_through", loc["pressure"] is data["pres"] and loc["fpol"] is data["fpol"])
        env.claim("psi_axis/bdry_from_simagx/sibdry", loc["psi_axis_gfile"] is data["simagx"] and loc["psi_bdry_gfile"] is data["sibdry"])
        if nlim:
            env.claim("wall=zip(rlim,zlim)", [tuple(p) for p in loc["wall"]] == [(data["rlim"][k], data["zlim"][k]) for k in range(nlim)] if not sym else
                      all(a is data["rlim"][k] and b is data["zlim"][k] for k, (a, b) in enumerate(loc["wall"])) and len(loc["wall"]) == nlim)
        else:
            env.claim("no_limiter_means_no_wall", loc["wall"] is None)
        env.claim("embedded_text_is_the_whole_file", loc["result"].geqdsk_input == text and loc["result"].geqdsk_filename == "file.geqdsk")
    return body


ENCW = ["hypnotoad.geqdsk._geqdsk:write", "hypnotoad.geqdsk._geqdsk:read", "hypnotoad.geqdsk._fileutils:ChunkOutput.write",
        "hypnotoad.geqdsk._fileutils:ChunkOutput.newline", "hypnotoad.geqdsk._fileutils:write_1d", "hypnotoad.geqdsk._fileutils:write_2d"]

OBLIGATIONS.append(Ob("token_languages", ob_tokens, tier="quick", family="tokens",
                      desc="L(f2s) subset of L(reader pattern); abutting tokens split at the token boundary; int/float type decision",
                      encodes=["hypnotoad.geqdsk._fileutils:next_value", "hypnotoad.geqdsk._fileutils:f2s"],
                      stubs=["C printf %E language model"], bounds="2-digit exponents; continuation <= 20 chars", timeout_ms=60000, final_timeout_ms=120000))
OBLIGATIONS.append(Ob("exponent3_scope_note", ob_exponent3, tier="thorough", family="tokens",
                      desc="(scope) a 3-digit-exponent token is split after 2 exponent digits - outside the property's stated domain",
                      encodes=["hypnotoad.geqdsk._fileutils:next_value"], bounds="3-digit exponents"))
OBLIGATIONS.append(Ob("header_fields_upto_999", _mk_header(True), tier="quick", family="header",
                      desc="fixed-width header: split()[-3:] recovers idum, nx, ny when nx, ny <= 999",
                      encodes=["hypnotoad.geqdsk._geqdsk:write", "hypnotoad.geqdsk._geqdsk:read"], bounds="nx, ny digit strings of length 1..3",
                      timeout_ms=60000, final_timeout_ms=120000))
OBLIGATIONS.append(Ob("header_fields_1000_and_more", _mk_header(False), tier="quick", family="header",
                      desc="fixed-width header: split()[-3:] recovers idum, nx, ny when nx or ny >= 1000 (i4 fields abut)",
                      encodes=["hypnotoad.geqdsk._geqdsk:write", "hypnotoad.geqdsk._geqdsk:read"], bounds="nx or ny with 4 digits (more are not representable in i4)",
                      timeout_ms=60000, final_timeout_ms=120000))
_sizes_q = [(1, 1, 0, 0, True), (2, 3, 1, 0, False), (3, 2, 0, 2, True), (4, 4, 3, 3, False), (6, 1, 2, 1, True), (5, 5, 0, 0, True)]
_sizes_t = [(nx, ny, nb, nl, opt) for nx in range(1, 8) for ny in (1, 2, 5, 7) for (nb, nl) in ((0, 0), (1, 3), (3, 1), (2, 2)) for opt in (True, False)]
for (nx, ny, nb, nl, opt) in _sizes_t:
    q = (nx, ny, nb, nl, opt) in _sizes_q
    OBLIGATIONS.append(Ob("layout_nx%d_ny%d_b%d_l%d_%s" % (nx, ny, nb, nl, "opt" if opt else "noopt"), _mk_layout(nx, ny, nb, nl, opt),
                          tier="quick" if q else "thorough", family="layout",
                          desc="read(write(d)) returns every scalar / array element / point at its own place; 5-per-line chunking",
                          encodes=ENCW, stubs=["f2s/float -> injective token pair", "numpy.zeros -> object array"],
                          bounds="nx=%d ny=%d nbdry=%d nlim=%d optional=%s" % (nx, ny, nb, nl, opt)))
for t in _sizes_q:
    if t not in _sizes_t:
        nx, ny, nb, nl, opt = t
        OBLIGATIONS.append(Ob("layout_nx%d_ny%d_b%d_l%d_%s" % (nx, ny, nb, nl, "opt" if opt else "noopt"), _mk_layout(nx, ny, nb, nl, opt),
                              tier="quick", family="layout", desc="read(write(d)) round trip of positions", encodes=ENCW,
                              stubs=["f2s/float -> injective token pair"], bounds="nx=%d ny=%d nbdry=%d nlim=%d" % (nx, ny, nb, nl)))

for (_nx, _ny, _nl, _t) in ((3, 2, 0, "quick"), (2, 4, 3, "quick"), (5, 3, 2, "thorough"), (4, 4, 1, "thorough")):
    OBLIGATIONS.append(Ob("read_geqdsk_mapping_nx%d_ny%d_lim%d" % (_nx, _ny, _nl), _mk_read_geqdsk(_nx, _ny, _nl), tier=_t, family="read_geqdsk",
                          encodes=["hypnotoad.cases.tokamak:read_geqdsk"], desc="R1D, Z1D, psi1D grids as the format defines; psi array, profiles and wall passed through; whole file text embedded",
                          stubs=["geqdsk reader -> symbolic data dictionary", "linspace -> exact arithmetic"], bounds="nx=%d ny=%d nlim=%d" % (_nx, _ny, _nl)))
