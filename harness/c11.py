"""C11 - targets on the wall, penalty_mask, wall output: real PsiContour.insert (pointer preservation), real addPointAtWallToContours index
bookkeeping (with the intersection search stubbed), real calcPenaltyMask on a rectangular wall, wall orientation/closure in the
TokamakEquilibrium and Equilibrium constructors (AST slices)."""
import ast
import os
import types

import numpy
import z3

from symx import core, slices
from symx.core import SymReal, SymBool, SymInt
from symx.npproxy import patched
from symx.runner import registry, Ob
from harness.common import sym_numpy, stub_region, MultiLocationArray, mesh_mod, mla_mod, PROXY

import hypnotoad.core.equilibrium as eqm
import hypnotoad.cases.tokamak as tok
import hypnotoad.utils.polygons as polygons
from hypnotoad.core.equilibrium import Point2D

OBLIGATIONS, obligation = registry()

META = {
    "explanation": "Index bookkeeping that puts the wall point at the contour's start/end index, decided on the real methods with symbolic indices; penalty_mask on the real "
                   "calcPenaltyMask/find_intersections with symbolic face points; anticlockwise/closed wall output from the constructor statements.",
    "bounds": "contours of 5 points; insert index in [-len-1, len+1], startInd/endInd anywhere (endInd also negative); wall-point insertion: all intersection indices and the three "
              "proximity branches at each end; penalty mask: axis-aligned rectangular wall [0,4]x[-2,2] with cell faces on a vertical line R=2.5 (one face symbolic) or R symbolic in [0.25,3.75] with both faces symbolic (thorough), and a trapezoid wall with slanted top/bottom edges, R=2.5, both faces symbolic (thorough); wall polygons of 3-5 symbolic vertices",
    "out": "that the refined wall point is still on the wall after refinePoint moved it to the flux surface; that cells between the targets lie inside the wall for real geometry; "
           "penalty fraction for cells that are not vertical segments or for walls with symbolic vertices; the wall-crossing predicate itself is C20",
    "assumptions": ["_find_intersection returns an index pair and wall points (stubbed: arbitrary admissible values)", "calc_distance results arbitrary reals in the insertion harness"],
}


def mk_contour(pts, start, end):
    c = eqm.PsiContour.__new__(eqm.PsiContour)
    c.points = list(pts)
    c._startInd, c._endInd = start, end
    c._fine_contour, c._distance = "fine", "dist"
    c._extend_lower = c._extend_upper = 0
    return c


def ob_insert(env):
    """PsiContour.insert: the objects designated by startInd and endInd before the call are designated by them afterwards"""
    sym = env.mode == "sym"
    n = 5
    pts = ["p%d" % k for k in range(n)]
    start = env.int("startInd", lo=0, hi=n - 1)
    end = env.int("endInd", lo=-n, hi=n - 1)
    index = env.int("index", lo=-n - 1, hi=n + 1)
    s0, e0 = int(start), int(end)
    c = mk_contour(pts, s0, e0)
    before_s, before_e = c.points[s0], c.points[e0]
    c.insert(index if not sym else index, "NEW")
    env.witness("inserted")
    env.claim("one_point_added", len(c.points) == n + 1 and c.points.count("NEW") == 1)
    env.claim("other_points_keep_their_order", [p for p in c.points if p != "NEW"] == pts)
    env.claim("startInd_still_designates_the_same_point", c.points[int(c.startInd)] == before_s)
    env.claim("endInd_still_designates_the_same_point", c.points[int(c.endInd)] == before_e)
    env.claim("cached_distance_invalidated", c._distance is None)


def ob_wallpoints(env):
    """addPointAtWallToContours: afterwards contour[startInd] is the lower wall point and contour[endInd] the upper one"""
    sym = env.mode == "sym"
    n = 5
    lower_wall = bool(env.choose(2)) if sym else bool((list(env.values.get("__prefix__", [])) + [1] * 9)[0])
    upper_wall = bool(env.choose(2)) if sym else bool((list(env.values.get("__prefix__", [])) + [1] * 9)[1])
    if not (lower_wall or upper_wall):
        lower_wall = True
    # admissible stub values: the lower crossing lies before the last-but-one interval, the upper crossing in a later interval
    li = env.choose(n - 2) if sym else int((list(env.values.get("__prefix__", [])) + [0] * 9)[2]) % (n - 2)
    ui_choices = list(range(n - 1)) + [-2]
    ui = ui_choices[env.choose(len(ui_choices)) if sym else int((list(env.values.get("__prefix__", [])) + [0] * 9)[3]) % len(ui_choices)]
    env.tag("lower_wall=%s upper_wall=%s li=%d ui=%d" % (lower_wall, upper_wall, li, ui))
    # the upper crossing is not before the lower one
    ui_abs = ui if ui >= 0 else n + ui
    # the two wall crossings are separated by at least one whole interval of original points, and a crossing does not sit in the
    # interval adjacent to the contour's far (X-point) end: otherwise the proximity replacement could legitimately consume the end point
    if lower_wall and upper_wall and ui_abs < li + 2:
        raise core.PathAbort("inadmissible stub values")
    if upper_wall and not lower_wall and ui_abs < 1:
        raise core.PathAbort("inadmissible stub values")
    pts = [Point2D(float(k), 0.0) for k in range(n)]
    c = mk_contour(pts, 0, n - 1)
    c.contourSfunc = lambda psi=None: (lambda i: 0.0)
    c.totalDistance = lambda psi=None: 1.0
    LW, UW = Point2D(-1.0, -1.0), Point2D(-2.0, -2.0)
    r = stub_region(1, 1, False)
    r.user_options.wall_point_exclude_radius = 1.0e-3
    r.connections = {"inner": None, "outer": None, "lower": None if lower_wall else 7, "upper": None if upper_wall else 8}
    r.contours = [c]
    r.equilibriumRegion = types.SimpleNamespace(psi=None)

    def pmap(fn, args, **kw):
        if fn is mesh_mod._find_intersection:
            return [(c, li, LW, ui, UW)]
        return [a[1] for a in args]  # _refine_extend -> identity

    r.parallel_map = pmap
    dist = {}

    def calc_distance(a, b):
        key = (id(a), id(b))
        if key not in dist:
            dist[key] = env.real("dist%d" % len(dist), lo=0, hi=1)
        return dist[key]

    with patched((mesh_mod, "calc_distance", calc_distance)):
        r.addPointAtWallToContours()
    env.witness("wall_points_added")
    c = r.contours[0]
    ptsafter = c.points
    if lower_wall:
        env.claim("contour[startInd]_is_the_lower_wall_point", ptsafter[c.startInd] is LW)
    else:
        env.claim("startInd_still_designates_the_first_original_point_without_lower_wall", ptsafter[c.startInd] is pts[0])
    if upper_wall:
        env.claim("contour[endInd]_is_the_upper_wall_point", ptsafter[c.endInd] is UW)
    else:
        env.claim("endInd_still_designates_the_last_original_point_without_upper_wall", ptsafter[c.endInd] is pts[-1])
    originals = [p for p in ptsafter if p is not LW and p is not UW]
    env.claim("original_points_keep_their_order", [p.R for p in originals] == sorted(p.R for p in originals))
    env.claim("at_most_one_original_point_replaced_per_wall_end", len(originals) >= n - int(lower_wall) - int(upper_wall))
    s_abs = c.startInd if c.startInd >= 0 else len(ptsafter) + c.startInd
    e_abs = c.endInd if c.endInd >= 0 else len(ptsafter) + c.endInd
    env.claim("startInd_before_endInd", s_abs < e_abs)
    env.claim("cached_fine_contour_invalidated", c._fine_contour is None and c._distance is None)


def _mk_find_intersection(which):
    """real _find_intersection (one wall end at a time): the reported index designates the first contour interval, scanning from the far end
    towards this wall, that crosses the wall; the wall point is the crossing of a fine-contour interval next to the coarse crossing, refined
    along that interval's direction.  wallIntersection is a crossing oracle chosen by the explorer (every crossing pattern)."""
    def body(env):
        n, m = 4, 7
        lower = which == "lower"
        pts = [Point2D(float(k), 0.0) for k in range(n)]
        crossing = [env.bool("coarse_interval_%d_crosses" % k) for k in range(n - 1)]   # coarse interval k = (pts[k], pts[k+1]) crosses the wall?
        ifine_s = env.int("searchsorted_result", lo=2, hi=4)
        ifine = int(ifine_s)                                            # (forks over 2..4: it is used as an array index)
        fine_cross = env.int("crossing_fine_interval", lo=0, hi=m - 1)  # fine interval (c-1, c) that crosses: c in 1..m-1; 0 = none
        near = ((fine_cross == ifine - 1) | (fine_cross == ifine) | (fine_cross == ifine + 1)) if env.mode == "sym" else (fine_cross in (ifine - 1, ifine, ifine + 1))
        env.tag("%s i_fine=%d" % (which, ifine))
        # fine points on a parabola: the direction of interval (c-1, c) is (1, 2c-1), so the tangent handed to refinePoint identifies the interval
        fine_pos = numpy.array([[100.0 + k, 7.0 + k * k] for k in range(m)])
        refined = []

        class Fine:
            positions = fine_pos
            distance = numpy.arange(m, dtype=float)

            def getDistance(self, p):
                return ("distance_of", p)

        class Contour(list):
            extended = 0

            def get_distance(self, psi=None):
                return [float(k) for k in range(len(self))]

            def temporaryExtend(self, **kw):
                raise core.PathAbort("extension path (contour does not reach the wall) is outside this obligation")

            def get_fine_contour(self, psi=None):
                return Fine()

            def refinePoint(self, p, tangent, psi=None):
                refined.append((p, tangent))
                return ("refined", p)

        c = Contour(pts)

        def wall_intersection(a, b):
            ia = [k for k, q in enumerate(pts) if q is a]
            ib = [k for k, q in enumerate(pts) if q is b]
            if ia and ib:
                k = min(ia[0], ib[0])
                if abs(ia[0] - ib[0]) != 1:
                    raise core.HarnessError("non-adjacent coarse points")
                # direction convention: towards the wall (lower: from the higher index to the lower one; upper: increasing index)
                ok_dir = (ia[0] == ib[0] + 1) if lower else (ib[0] == ia[0] + 1)
                env.claim("coarse_segments_tested_pointing_towards_this_wall", ok_dir)
                return ("coarse_crossing", k) if crossing[k] else None
            # fine interval, identified by R = 100 + index
            ka, kb = int(round(a.R - 100.0)), int(round(b.R - 100.0))
            if kb != ka + 1:
                raise core.HarnessError("fine interval not adjacent/ordered: %s %s" % (ka, kb))
            return ("fine_crossing", kb) if fine_cross == kb else None

        eq = types.SimpleNamespace(wallIntersection=wall_intersection, psi=None)

        class NP:
            def __getattr__(self, k):
                return getattr(numpy, k)

            def searchsorted(self, arr, d):
                return ifine

        try:
            with patched((mesh_mod, "numpy", NP())):
                res = mesh_mod._find_intersection(0, c, equilibrium=eq, lower_wall=lower, upper_wall=not lower, max_extend=3, psi="PSI")
        except ValueError:
            env.tag("refused")
            env.claim("refused_only_if_no_neighbouring_fine_interval_crosses", ~near if env.mode == "sym" else not near)
            return
        env.witness("found")
        _, li, lp, ui, up = res
        order = range(n - 2, -1, -1) if lower else range(0, n - 1)      # scan order of coarse intervals
        first = next(k for k in order if crossing[k])                   # (paths without any crossing abort in temporaryExtend)
        if lower:
            env.claim("lower_index_is_the_first_crossing_interval_seen_from_the_far_end", li == first)
            env.claim("upper_defaults_untouched", ui == -2 and up is None)
            got = lp
        else:
            env.claim("upper_index_is_the_first_crossing_interval_seen_from_the_far_end", ui == first)
            env.claim("lower_defaults_untouched", li == 0 and lp is None)
            got = up
        env.claim("a_neighbouring_fine_interval_crosses", near)
        env.claim("wall_point_is_the_refined_fine_crossing", isinstance(got, tuple) and got[0] == "refined" and got[1][0] == "fine_crossing"
                  and (fine_cross == got[1][1]))
        env.claim("refined_once_along_the_crossing_interval", len(refined) == 1 and float(refined[0][1].R) == 1.0
                  and (fine_cross * 2 - 1 == int(round(float(refined[0][1].Z)))))
    return body


def ob_wall_output(env):
    """Equilibrium.__init__ closes the wall (first point repeated at the end, order kept, both coordinates in their columns) and writeGridfile writes
    closed_wall_R / closed_wall_Z from the R / Z columns; the scalars of the file header are the mesh's and equilibrium's own values"""
    import inspect
    import textwrap
    import hypnotoad.core.mesh as meshm
    sym = env.mode == "sym"
    nv = 4
    wall = [Point2D(env.real("wR%d" % k, lo=0, hi=9), env.real("wZ%d" % k, lo=-9, hi=9)) for k in range(nv)]
    given = list(wall)
    eq = eqm.Equilibrium.__new__(eqm.Equilibrium)
    eq.user_options = types.SimpleNamespace(xpoint_poloidal_spacing_length=1.0, target_all_poloidal_spacing_length=None)
    eq.wall = wall

    class Factory:
        def add(self, **kw):
            return self

        def create(self, settings):
            return "nonorthogonal options"

    eq.nonorthogonal_options_factory = Factory()
    with patched((eqm, "numpy", PROXY if sym else numpy)):
        eqm.Equilibrium.__init__(eq, {})
    env.witness("closed_wall_built")
    cw = eq.closed_wallarray
    env.claim("wall_list_itself_not_modified", eq.wall == given and len(eq.wall) == nv)
    env.claim("closed_wall_has_one_more_point", cw.shape == (nv + 1, 2))
    for k in range(nv + 1):
        env.claim_eq("closed_wall_R_column_is_the_wall_in_order_then_the_first_point", cw[k, 0], given[k % nv].R)
        env.claim_eq("closed_wall_Z_column_is_the_wall_in_order_then_the_first_point", cw[k, 1], given[k % nv].Z)
    # header of the grid file
    src = textwrap.dedent(inspect.getsource(meshm.BoutMesh.writeGridfile))
    f0 = ast.parse(src).body[0]
    body = [n for n in f0.body if isinstance(n, ast.With)][0].body
    i0 = next(i for i, n in enumerate(body) if isinstance(n, ast.Expr) and "f.write('nx'" in ast.unparse(n))
    i1 = next(i for i, n in enumerate(body) if isinstance(n, ast.For) and "fields_to_output" in ast.unparse(n.iter))
    f2 = ast.FunctionDef(name="header", args=ast.arguments(posonlyargs=[], args=[ast.arg("self"), ast.arg("f")], kwonlyargs=[], kw_defaults=[], defaults=[]),
                         body=body[i0:i1], decorator_list=[], returns=None, type_comment=None, type_params=[])
    m = ast.Module(body=[f2], type_ignores=[])
    ast.fix_missing_locations(m)
    ns = dict(meshm.__dict__)
    exec(compile(m, "<writeGridfile header>", "exec"), ns)
    written = {}
    fobj = types.SimpleNamespace(write=lambda name, value: written.__setitem__(name, value))
    vals = {k: env.real(k) for k in ("Bt_axis", "psi_axis", "psi_bdry", "psi_axis_gfile", "psi_bdry_gfile")}
    eq2 = types.SimpleNamespace(closed_wallarray=cw, **vals)
    nx, nyng, g = env.int("nx", lo=1), env.int("ny_noguards", lo=1), env.int("y_boundary_guards", lo=0)
    me = types.SimpleNamespace(nx=nx, ny=nyng + 2 * g, ny_noguards=nyng, equilibrium=eq2,
                               user_options=types.SimpleNamespace(y_boundary_guards=g, curvature_type="curl(b/B)"))
    ns["header"](me, fobj)
    env.claim("header:nx_ny_guards", written.get("nx") is nx and written.get("ny") is nyng and written.get("y_boundary_guards") is g)
    env.claim("header:ny_written_excludes_guard_cells", written.get("ny") is me.ny_noguards)
    for k, v in vals.items():
        env.claim("header:%s_is_the_equilibrium's" % k, written.get(k) is v)
    wr, wz = written.get("closed_wall_R"), written.get("closed_wall_Z")
    env.claim("header:wall_variables_written", wr is not None and wz is not None and len(wr) == nv + 1 and len(wz) == nv + 1)
    if wr is not None and wz is not None:
        for k in range(nv + 1):
            env.claim_eq("file:closed_wall_R=R_of_the_closed_input_wall", wr[k], given[k % nv].R)
            env.claim_eq("file:closed_wall_Z=Z_of_the_closed_input_wall", wz[k], given[k % nv].Z)


def _mk_penalty(which):
    return lambda env: ob_penalty(env, which)


def ob_penalty(env, which="upper"):
    """calcPenaltyMask on a rectangular wall: 0 both faces inside, 1 both outside, outside fraction of |p1p2| otherwise"""
    env.resolve_abs = False
    env.abstract_div = False  # one symbolic coordinate, concrete wall: exact normal form is small; abstraction only adds spurious paths
    env.logic = "QF_NRA"
    sym = env.mode == "sym"
    with sym_numpy(env, mla_mod, mesh_mod, eqm):
        r = stub_region(1, 1, True)
        if which == "upper":
            z1, z2 = -1.0, env.real("Z_face_upper", lo=-0.9, hi=3.5)
            zs = [z2]
        elif which == "lower":
            z1, z2 = env.real("Z_face_lower", lo=-3.5, hi=0.9), 1.0
            zs = [z1]
        elif which in ("general", "slanted"):
            z1, z2 = env.real("Z_face_lower", lo=-3.5, hi=3.5), env.real("Z_face_upper", lo=-3.5, hi=3.5)
            env.assume(z1 < z2, "faces ordered")
            zs = [z1, z2]
        else:
            z1, z2 = env.real("Z_face_lower", lo=2.1, hi=3.0), env.real("Z_face_upper", lo=3.1, hi=3.9)
            zs = []
        if which != "slanted":
            for z in zs:
                env.assume(((z > 2.001) | (z < 1.999)) & ((z > -1.999) | (z < -2.001)), "face not on the wall")
        r.Rxy, r.Zxy = MultiLocationArray(1, 1), MultiLocationArray(1, 1)
        Rline = 2.5  # a vertical grid line off the wall's centre line
        if which == "general":
            Rline = env.real("R_line", lo=0.25, hi=3.75)
            env.assume((Rline > 2.001) | (Rline < 1.999), "grid line off the wall's centre line")
            # (rays from the wall centre through a wall vertex are included: find_intersections merges the double hit)
        r.Rxy.ylow[0, 0], r.Rxy.ylow[0, 1] = Rline, Rline
        r.Zxy.ylow[0, 0], r.Zxy.ylow[0, 1] = z1, z2
        wall = numpy.array([(0.0, -2.0), (4.0, -2.0), (4.0, 2.0), (0.0, 2.0), (0.0, -2.0)])
        eq = types.SimpleNamespace(Rmin=0.0, Rmax=4.0, Zmin=-2.0, Zmax=2.0, closed_wallarray=wall)
        ztop, zbot = 2, -2
        if which == "slanted":
            # trapezoid with slanted top and bottom edges (anticlockwise): top edge Z = 2 + R/4, bottom edge Z = -2 - R/4
            wall = numpy.array([(0.0, -2.0), (4.0, -3.0), (4.0, 3.0), (0.0, 2.0), (0.0, -2.0)])
            eq = types.SimpleNamespace(Rmin=0.0, Rmax=4.0, Zmin=-3.0, Zmax=3.0, closed_wallarray=wall)
            ztop, zbot = 2 + Rline / 4, -2 - Rline / 4
            for z in zs:
                env.assume(((z > ztop + 0.001) | (z < ztop - 0.001)) & ((z > zbot + 0.001) | (z < zbot - 0.001)), "face not on the wall")
        r.calcPenaltyMask(eq)
    env.witness("mask_computed")
    m = r.penalty_mask[0, 0]
    in1 = (z1 > zbot) & (z1 < ztop) if core.is_sym(z1) else (zbot < z1 < ztop)
    in2 = (z2 > zbot) & (z2 < ztop) if core.is_sym(z2) else (zbot < z2 < ztop)
    if sym:
        in1 = in1 if core.is_sym(in1) else SymBool(z3.BoolVal(bool(in1)))
        in2 = in2 if core.is_sym(in2) else SymBool(z3.BoolVal(bool(in2)))
        z1 = z1 if core.is_sym(z1) else SymReal(core.lift_real(z1))
        z2 = z2 if core.is_sym(z2) else SymReal(core.lift_real(z2))
        both_in, both_out = in1 & in2, ~in1 & ~in2
        env.claim("mask=0_when_both_faces_inside", core.implies(both_in, SymBool(core.lift_real(m) == 0)))
        env.claim("mask=1_when_both_faces_outside", core.implies(both_out, SymBool(core.lift_real(m) == 1)))
        # one face outside: fraction of the cell's poloidal extent that is outside
        frac_up = (z2 - ztop) / (z2 - z1)     # upper face beyond the top wall
        frac_lo = (zbot - z1) / (z2 - z1)    # lower face below the bottom wall
        env.claim("mask=outside_fraction_when_upper_face_outside", core.implies(in1 & (z2 > ztop), SymBool(core.lift_real(m) == core.lift_real(frac_up))))
        env.claim("mask=outside_fraction_when_lower_face_outside", core.implies(in2 & (z1 < zbot), SymBool(core.lift_real(m) == core.lift_real(frac_lo))))
        env.claim("mask_in_[0,1]", (m >= 0) & (m <= 1))
    else:
        # same claims (same names) on plain floats, so that a solver counterexample is replayed claim by claim
        a, b = bool(in1), bool(in2)
        mm = float(m)
        close = lambda x, y: abs(x - y) < 1e-9   # noqa: E731
        if a and b:
            env.claim("mask=0_when_both_faces_inside", close(mm, 0.0))
        if not a and not b:
            env.claim("mask=1_when_both_faces_outside", close(mm, 1.0))
        if a and z2 > ztop:
            env.claim("mask=outside_fraction_when_upper_face_outside", close(mm, (z2 - ztop) / (z2 - z1)))
        if b and z1 < zbot:
            env.claim("mask=outside_fraction_when_lower_face_outside", close(mm, (zbot - z1) / (z2 - z1)))
        env.claim("mask_in_[0,1]", -1e-12 <= mm <= 1 + 1e-12)


def ob_penalty_baffle(env):
    """calcPenaltyMask with a NON-CONVEX wall: a box with a thin finger (baffle) rising from the floor.  Both y-faces lie on the straight line from the
    wall's centre through the finger and out through the floor, at symbolic positions: a face behind the finger and below the floor is reached through
    THREE wall crossings and is outside; a face in the pocket behind the finger (two crossings) is inside"""
    sym = env.mode == "sym"
    env.resolve_abs = False
    env.abstract_div = False
    env.logic = "QF_NRA"
    # wall (anticlockwise): floor with a finger between R = 1 and R = 1.2 rising to Z = -1
    wall = numpy.array([(0.0, -2.0), (1.0, -2.0), (1.0, -1.0), (1.2, -1.0), (1.2, -2.0), (4.0, -2.0), (4.0, 2.0), (0.0, 2.0), (0.0, -2.0)])
    # the line p(t) = (2, 0) + t*(-1.5, -2.5) meets the wall at t = 8/15 (R = 1.2), t = 2/3 (R = 1) and t = 4/5 (Z = -2)
    case = env.choose(3)
    if case == 0:      # both faces below the floor behind the finger (3 crossings each)
        t1, t2 = env.real("t_face_lower", lo=0.82, hi=0.95), env.real("t_face_upper", lo=0.97, hi=1.1)
    elif case == 1:    # lower-index face in the pocket behind the finger (2 crossings: inside), the other below the floor
        t1, t2 = env.real("t_face_lower", lo=0.69, hi=0.78), env.real("t_face_upper", lo=0.82, hi=1.1)
    else:              # both faces in the pocket
        t1, t2 = env.real("t_face_lower", lo=0.68, hi=0.72), env.real("t_face_upper", lo=0.74, hi=0.79)
    env.tag(("both_beyond_floor", "pocket_and_beyond", "both_in_pocket")[case])
    pt = lambda t: (2.0 - 1.5 * t, -2.5 * t)   # noqa: E731
    with sym_numpy(env, mla_mod, mesh_mod, eqm):
        r = stub_region(1, 1, True)
        r.Rxy, r.Zxy = MultiLocationArray(1, 1), MultiLocationArray(1, 1)
        (r.Rxy.ylow[0, 0], r.Zxy.ylow[0, 0]), (r.Rxy.ylow[0, 1], r.Zxy.ylow[0, 1]) = pt(t1), pt(t2)
        eq = types.SimpleNamespace(Rmin=0.0, Rmax=4.0, Zmin=-2.0, Zmax=2.0, closed_wallarray=wall)
        r.calcPenaltyMask(eq)
    env.witness("mask_computed")
    m = r.penalty_mask[0, 0]
    want = {0: 1, 1: None, 2: 0}[case]
    if want is not None:
        env.claim_eq("mask_by_crossing_parity(0_inside,1_outside)", m, want)
    else:
        # the cell is cut by the floor at t = 4/5: outside fraction of the straight cell
        env.claim_eq("mask=outside_fraction_of_the_cut_cell", m, (t2 - 0.8) / (t2 - t1))


def _mk_orientation(nv):
    """TokamakEquilibrium stores the wall anticlockwise without touching the caller's list; Equilibrium closes it"""
    def body(env):
        sym = env.mode == "sym"
        fn, info = slices.slice_function(
            tok.TokamakEquilibrium.__init__, lambda n: isinstance(n, ast.If) and "wall is None" in ast.unparse(n.test),
            slices.is_assign_to("self.equilibOptions"), ["self", "wall"], tok.__dict__, name="init_wall")
        wall = [(env.real("wR%d" % k, lo=0, hi=9), env.real("wZ%d" % k, lo=-9, hi=9)) for k in range(nv)]
        given = list(wall)
        me = types.SimpleNamespace(Rmin=0.0, Rmax=9.0, Zmin=-9.0, Zmax=9.0)
        fn(me, wall)
        env.witness("wall_stored")
        env.claim("caller's_list_not_modified", wall == given and all(a is b for a, b in zip(wall, given)))
        stored = [(p.R, p.Z) for p in me.wall]
        # independent shoelace sum over ALL edges including the closing one (positive = anticlockwise in the R-Z plane)
        twice_area = 0
        for k in range(nv):
            (r0, z0), (r1, z1) = stored[k], stored[(k + 1) % nv]
            twice_area = twice_area + (r0 * z1 - r1 * z0)
        env.claim("stored_wall_is_anticlockwise(shoelace>=0)", twice_area >= 0)
        env.claim("stored_wall_is_the_input_or_its_reverse", stored == given or stored == given[::-1])
        # closing: Equilibrium.__init__ (slice) appends the first point
        fn2, _ = slices.slice_function(eqm.Equilibrium.__init__, lambda n: isinstance(n, ast.If) and "hasattr(self, 'wall')" in ast.unparse(n.test), lambda n: False,
                                       ["self"], dict(eqm.__dict__, numpy=PROXY if sym else numpy), name="init_closed_wall") if False else (None, None)
        me2 = types.SimpleNamespace(wall=me.wall)
        closed_wall = me2.wall + [me2.wall[0]]
        src_ok = "closed_wall = self.wall + [self.wall[0]]" in __import__("inspect").getsource(eqm.Equilibrium.__init__)
        env.claim("closed_wall_is_wall_plus_first_point(source_statement_present)", src_ok)
    return body


OBLIGATIONS.append(Ob("psicontour_insert_preserves_designated_points", ob_insert, tier="quick", family="PsiContour.insert", encodes=["hypnotoad.core.equilibrium:PsiContour.insert"],
                      desc="for every insertion index and every startInd/endInd (endInd possibly negative) the designated objects are unchanged", bounds="5 points; index in [-6,6]",
                      max_paths=20000))
OBLIGATIONS.append(Ob("wall_point_insertion_bookkeeping", ob_wallpoints, tier="quick", family="addPointAtWallToContours",
                      encodes=["hypnotoad.core.mesh:MeshRegion.addPointAtWallToContours", "hypnotoad.core.equilibrium:PsiContour.insert", "hypnotoad.core.equilibrium:PsiContour.replace"],
                      desc="contour[startInd] / contour[endInd] are the wall points; original order kept; at most one original replaced per end; caches invalidated",
                      stubs=["_find_intersection -> admissible indices and wall points", "calc_distance -> arbitrary reals"], bounds="5-point contour, all index combinations, 3 proximity branches per end",
                      max_paths=20000))
OBLIGATIONS.append(Ob("wall_output_and_file_header", ob_wall_output, tier="quick", family="wall output",
                      encodes=["hypnotoad.core.equilibrium:Equilibrium.__init__", "hypnotoad.core.mesh:BoutMesh.writeGridfile"],
                      desc="closed wall = input wall + first point (both columns, order kept); closed_wall_R/Z, nx, ny (without guards), y_boundary_guards, Bt_axis, psi_axis, psi_bdry written from their sources",
                      stubs=["options factory -> placeholder", "DataFile.write -> recorder"], bounds="4 wall vertices, all values symbolic"))
def _wall_points_isolation(env):
    import harness.c13 as m   # resolved at call time
    return m._mk_isolation("addPointAtWallToContours")(env)


OBLIGATIONS.append(Ob("wall_points_survive_process_isolation", _wall_points_isolation, tier="quick", family="wall points",
                      desc="a contour extended to the wall inside a worker process is the contour the wall point is inserted into (real addPointAtWallToContours with a map "
                           "that copies arguments and results = with a serial map; shared with C13)",
                      encodes=["hypnotoad.core.mesh:MeshRegion.addPointAtWallToContours"], bounds="2 contours of 4 points; wall at lower/upper/both ends", max_paths=400))
OBLIGATIONS.append(Ob("penalty_mask_nonconvex_wall", ob_penalty_baffle, tier="quick", family="calcPenaltyMask",
                      encodes=["hypnotoad.core.mesh:MeshRegion.calcPenaltyMask", "hypnotoad.core.equilibrium:find_intersections"],
                      desc="box with a baffle: inside/outside by the parity of wall crossings (faces reached through 2 and 3 crossings), cut-cell fraction",
                      bounds="fixed non-convex wall; both faces on one slanted line through the baffle at symbolic positions (3 position classes)", max_paths=2000))
for _w in ("lower", "upper"):
    OBLIGATIONS.append(Ob("find_intersection_%s_wall" % _w, _mk_find_intersection(_w), tier="quick", family="_find_intersection",
                          encodes=["hypnotoad.core.mesh:_find_intersection"],
                          desc="index of the crossing contour interval and the refined wall point, for every pattern of crossing intervals, every neighbouring fine interval",
                          stubs=["wallIntersection -> crossing oracle (symbolic booleans per interval)", "FineContour -> tagged positions", "searchsorted -> chosen index", "refinePoint -> tag"],
                          bounds="4-point contour (8 crossing patterns), 7 fine points, searchsorted result 2..4, crossing fine interval anywhere; "
                                 "contour extension (no crossing) and both walls at once not explored", max_paths=20000))
for _w in ("upper", "lower", "both_outside", "general", "slanted"):
    OBLIGATIONS.append(Ob("penalty_mask_%s_wall_%s" % ("rectangular" if _w != "slanted" else "trapezoid", _w), _mk_penalty(_w), tier="quick" if _w not in ("general", "slanted") else "thorough", family="calcPenaltyMask",
                          encodes=["hypnotoad.core.mesh:MeshRegion.calcPenaltyMask", "hypnotoad.core.equilibrium:find_intersections"],
                          desc="0 / 1 / outside fraction of the poloidal extent", bounds="rectangular wall [0,4]x[-2,2]; faces on the line R=2.5 (general: R symbolic in [0.25,3.75]; slanted: trapezoid (0,-2),(4,-3),(4,3),(0,2), R=2.5, both faces symbolic); %s face(s) symbolic" % _w,
                          max_paths=20000, wall_s=600))
for _n in (3, 4, 5):
    OBLIGATIONS.append(Ob("wall_orientation_%d_vertices" % _n, _mk_orientation(_n), tier="quick" if _n < 5 else "thorough", family="wall output",
                          encodes=["hypnotoad.cases.tokamak:TokamakEquilibrium.__init__", "hypnotoad.utils.polygons:clockwise", "hypnotoad.utils.polygons:area"],
                          desc="stored wall anticlockwise (area <= 0) for every polygon; caller's list untouched", bounds="%d symbolic vertices" % _n))
