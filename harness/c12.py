"""C12 (fail-loud guard contracts only) - for each run-time guard of the pipeline: 'returns => postcondition', decided on the real code with symbolic
data.  Most obligations are shared with the property whose quantity the guard protects; two are specific: Equilibrium.makeConnection and the
option-consistency loop of Mesh.__init__."""
import ast
import types
from collections import OrderedDict

import numpy
import z3

from symx import core, slices
from symx.core import SymBool
from symx.runner import registry, Ob

import hypnotoad.core.equilibrium as eqm
import hypnotoad.core.mesh as mesh_mod
import harness.c02 as c02
import harness.c05 as c05
import harness.c06 as c06
import harness.c09 as c09
import harness.c10 as c10

OBLIGATIONS, obligation = registry()

META = {
    "explanation": "Guards decided: make1dGrid (monotone or raises), _checkMonotonic, PsiContour.get_distance, calcHy positivity, the Jacobian self-check of calcMetric (cannot fire on "
                   "admissible input; fires exactly when J and the metric disagree), geometry1's Bp-sign check, makeConnection (double connection / nx mismatch refused), "
                   "Mesh.__init__ (settings changed since the equilibrium was created are refused), finiteness of DDX at all four locations.",
    "bounds": "as in the properties the obligations are shared with; makeConnection: two regions with symbolic nx; option loop: 3 option keys with symbolic values",
    "out": "'the shipped examples and reference settings generate', 'every documented variable present with the documented shape', 'no cell folded over', option validation inside the "
           "third-party optionsfactory package (I/O and whole-pipeline facts). This check covers the guard contracts and the option filter of the command-line scripts.",
    "assumptions": ["as in C02, C05, C06, C09, C10"],
}


def ob_makeconnection(env):
    sym = env.mode == "sym"
    eq = eqm.Equilibrium.__new__(eqm.Equilibrium)
    nxa, nxb = env.int("nx_a", lo=1, hi=9), env.int("nx_b", lo=1, hi=9)

    def reg(nx):
        return types.SimpleNamespace(nx=[nx], connections=[{"inner": None, "outer": None, "lower": None, "upper": None}])

    eq.regions = OrderedDict([("A", reg(nxa)), ("B", reg(nxb)), ("C", reg(nxb))])
    try:
        eq.makeConnection("A", 0, "B", 0)
    except ValueError:
        env.tag("refused")
        env.claim("refused_only_when_nx_differs", nxa != nxb)
        return
    env.tag("connected")
    env.witness("connected")
    env.claim("connected_only_when_nx_equal", nxa == nxb)
    env.claim("connection_recorded_both_ways", eq.regions["A"].connections[0]["upper"] == ("B", 0) and eq.regions["B"].connections[0]["lower"] == ("A", 0))
    for args, what in ((("A", 0, "C", 0), "second_upper_connection_refused"), (("C", 0, "B", 0), "second_lower_connection_refused")):
        try:
            eq.makeConnection(*args)
            env.claim(what, False)
        except ValueError:
            env.claim(what, True)
    eq.regions = {"A": reg(nxa), "B": reg(nxb)}
    try:
        eq.makeConnection("A", 0, "B", 0)
        env.claim("regions_must_be_ordered", False)
    except ValueError:
        env.claim("regions_must_be_ordered", True)


def ob_option_consistency(env):
    """Mesh.__init__: returns (past the loop) => every option common to equilibrium and mesh has the same value"""
    fn, info = slices.slice_function(mesh_mod.Mesh.__init__, lambda n: isinstance(n, ast.For) and "self.equilibrium.user_options" in ast.unparse(n.iter),
                                     lambda n: isinstance(n, ast.Expr) and "as_table" in ast.unparse(n), ["self", "equilibrium", "settings"], mesh_mod.__dict__, name="init_option_check")
    keys = ["a", "b", "c"]
    ev = {k: env.int("eq_" + k, lo=0, hi=3) for k in keys}
    mv = {k: env.int("mesh_" + k, lo=0, hi=3) for k in keys[:2]}  # key 'c' only exists on the equilibrium
    me = types.SimpleNamespace(equilibrium=types.SimpleNamespace(user_options=ev), user_options=mv)
    # the dict the caller passed: any subset of the mesh options may have been given explicitly (the others took their defaults)
    given = [k for k in keys[:2] if env.choose(2)]
    env.tag("explicit=%s" % ",".join(given))
    settings = {k: mv[k] for k in given}
    try:
        fn(me, me.equilibrium, settings)
    except ValueError:
        env.tag("refused")
        env.claim("refused_only_if_a_common_option_differs", (ev["a"] != mv["a"]) | (ev["b"] != mv["b"]) if env.mode == "sym" else (ev["a"] != mv["a"] or ev["b"] != mv["b"]))
        return
    env.tag("accepted")
    env.witness("accepted")
    env.claim("accepted_only_if_common_options_equal", (ev["a"] == mv["a"]) & (ev["b"] == mv["b"]) if env.mode == "sym" else (ev["a"] == mv["a"] and ev["b"] == mv["b"]))


# ---------------------------------------------------------------------------------------------
# command-line scripts: the "options in the input file that are not used" filter

import importlib  # noqa: E402
import inspect    # noqa: E402
import os         # noqa: E402
import textwrap   # noqa: E402

REPO = os.path.dirname(os.path.dirname(os.path.abspath(eqm.__file__)))
REPO = os.path.dirname(REPO)


def script_filter_slice(modname):
    """(fn(options) -> None or raises, keys main() reads from `options` after the filter, info): the statements of main() from
    `possible_options = ...` to the `raise ValueError` of the unused-options filter, with main's own local imports executed first"""
    mod = importlib.import_module(modname)
    src = textwrap.dedent(inspect.getsource(mod.main))
    fn = ast.parse(src).body[0]
    body = fn.body
    i0 = next(i for i, n in enumerate(body) if isinstance(n, ast.Assign) and getattr(n.targets[0], "id", None) == "possible_options")
    i1 = next(i for i, n in enumerate(body) if i > i0 and isinstance(n, ast.If) and "unused_options" in ast.unparse(n.test))
    imports = []
    for n in body[:i0]:
        if isinstance(n, ast.ImportFrom) and n.level > 0:
            pkg = modname.rsplit(".", n.level)[0]
            imports.append(ast.ImportFrom(module=pkg + ("." + n.module if n.module else ""), names=n.names, level=0))
    f2 = ast.FunctionDef(name="option_filter", args=ast.arguments(posonlyargs=[], args=[ast.arg("options")], kwonlyargs=[], kw_defaults=[], defaults=[]),
                         body=imports + body[i0:i1 + 1], decorator_list=[], returns=None, type_comment=None, type_params=[])
    m = ast.Module(body=[f2], type_ignores=[])
    ast.fix_missing_locations(m)
    ns = dict(mod.__dict__)
    exec(compile(m, "<%s unused-option filter>" % modname, "exec"), ns)
    read = set()
    for n in ast.walk(fn):
        if isinstance(n, ast.Call) and isinstance(n.func, ast.Attribute) and n.func.attr == "get" and getattr(n.func.value, "id", None) == "options" \
                and n.args and isinstance(n.args[0], ast.Constant) and isinstance(n.args[0].value, str):
            read.add(n.args[0].value)
        if isinstance(n, ast.Subscript) and getattr(n.value, "id", None) == "options" and isinstance(n.slice, ast.Constant) and isinstance(n.slice.value, str):
            read.add(n.slice.value)
    return ns["option_filter"], sorted(read), {"function": modname + ":main[unused-option filter]", "reads": sorted(read)}


SHIPPED = {"hypnotoad.scripts.hypnotoad_geqdsk": ["geqdsk_cdn.yaml", "geqdsk_ldn.yaml", "examples/tokamak/single-null.yaml", "examples/tokamak/connected-double-null.yaml",
                                                  "examples/tokamak/disconnected-double-null.yaml"],
           "hypnotoad.scripts.hypnotoad_circular": []}


def _mk_script_filter(modname):
    def body(env):
        filt, read, info = script_filter_slice(modname)
        if not read:
            raise core.HarnessError("no option reads found in %s.main" % modname)
        k = env.symstr("option_key", default=read[0])
        try:
            filt({k: 1})
        except ValueError:
            env.tag("rejected")
            # an option that main() itself reads later on must not be rejected as 'not used'
            is_read = core.SymBool(z3.Or(*[k.e == z3.StringVal(r) for r in read])) if env.mode == "sym" else (k in read)
            env.claim("rejected_option_is_not_one_the_script_reads", ~is_read if env.mode == "sym" else not is_read)
        else:
            env.tag("accepted")
            env.witness("accepted")
        # the shipped reference settings pass the filter (necessary for 'shipped reference settings generate'); concrete dictionaries
        import yaml
        for rel in SHIPPED[modname]:
            path = os.path.join(REPO, rel)
            if not os.path.exists(path):
                continue
            with open(path) as fh:
                opts = yaml.safe_load(fh) or {}
            try:
                filt(dict(opts))
                ok = True
            except ValueError:
                ok = False
            env.claim("shipped_settings_pass_the_option_filter:" + rel, ok)
    return body


def ob_geometry_order(env):
    """Mesh.geometry: each stage is run on ALL regions before the next stage starts (geometry2 needs every neighbour's Bp from geometry1, calcZShift the
    neighbours' hy/dphidy inputs, calcMetric the zShift that the first region of each y-group hands to the others)"""
    log = []

    class R:
        def __init__(self, name):
            self.name = name
            self.Rxy = self.Zxy = object()

        def __getattr__(self, k):
            if k in ("calcDistances", "geometry1", "geometry2", "calcZShift", "calcMetric"):
                return lambda: log.append((k, self.name))
            raise AttributeError(k)

    me = mesh_mod.Mesh.__new__(mesh_mod.Mesh)
    me.regions = OrderedDict([(0, R("a")), (1, R("b")), (2, R("c"))])
    me.user_options = types.SimpleNamespace(curvature_smoothing=None, shiftedmetric=True)
    import contextlib
    import io
    with contextlib.redirect_stdout(io.StringIO()):
        me.geometry()
    env.witness("ran")
    stages = ["calcDistances", "geometry1", "geometry2", "calcZShift", "calcMetric"]
    env.claim("every_stage_runs_once_per_region_in_stage_order", log == [(st, n) for st in stages for n in ("a", "b", "c")])


def ob_documented_variables(env):
    """every variable documented in doc/grid-file.rst has a writer in BoutMesh.geometry / writeGridfile (structural: names collected from the AST of the
    current source; the loops `for name in self.fields_to_output: self.writeArray(name, ...)` etc. are followed by name)"""
    import re
    doc = open(os.path.join(REPO, "doc", "grid-file.rst")).read()
    documented = set()
    for line in doc.splitlines():
        m = re.match(r"^\s*\* - (``.*)$", line)
        if m:
            documented.update(re.findall(r"``([^`]+)``", m.group(1)))
    if len(documented) < 40:
        raise core.HarnessError("could not parse the documented variable list (%d names)" % len(documented))
    gsrc = ast.parse(textwrap.dedent(inspect.getsource(mesh_mod.BoutMesh.geometry)))
    wsrc = ast.parse(textwrap.dedent(inspect.getsource(mesh_mod.BoutMesh.writeGridfile)))
    fields, xarrays, direct, arrays, corners = [], [], set(), set(), set()
    for n in ast.walk(gsrc):
        if isinstance(n, ast.Call) and isinstance(n.func, ast.Name) and n.args and isinstance(n.args[0], ast.Constant):
            if n.func.id == "addFromRegions":
                fields.append(n.args[0].value)
            elif n.func.id == "addFromRegionsXArray":
                xarrays.append(n.args[0].value)
    for n in ast.walk(wsrc):
        if isinstance(n, ast.Call) and isinstance(n.func, ast.Attribute) and n.args and isinstance(n.args[0], ast.Constant) and isinstance(n.args[0].value, str):
            if n.func.attr == "write" and ast.unparse(n.func.value) == "f":
                direct.add(n.args[0].value)
            elif n.func.attr == "writeArray":
                arrays.add(n.args[0].value)
        if isinstance(n, ast.For) and "writeCorners" in ast.unparse(n) and isinstance(n.iter, ast.List):
            corners.update(e.value for e in n.iter.elts if isinstance(e, ast.Constant))
    loops = ast.unparse(wsrc)
    env.claim("fields_collected_in_geometry_are_all_written", "for name in self.fields_to_output:" in loops and "self.writeArray(name, self.__dict__[name], f)" in loops)
    env.claim("x_arrays_collected_in_geometry_are_all_written", "for name in self.arrayXDirection_to_output:" in loops and "self.writeArrayXDirection(name, self.__dict__[name], f)" in loops)
    written = set(direct) | set(xarrays)
    for nm in list(fields) + list(arrays):
        written.update({nm, nm + "_xlow", nm + "_ylow"})
    for nm in corners:
        written.update({nm + "_corners", nm + "_lower_right_corners", nm + "_upper_right_corners", nm + "_upper_left_corners"})
    env.witness("names_collected")
    for nm in sorted(documented):
        env.claim("documented_variable_has_a_writer:" + nm, nm in written)


def ob_documented_variables_collected(env):
    """the real BoutMesh.geometry collection stage run for every accepted value of the options it branches on: every documented field variable is
    collected for output whatever the option values (a value for which generation is refused is skipped: no file is written then)"""
    import re
    doc = open(os.path.join(REPO, "doc", "grid-file.rst")).read()
    documented = set()
    for line in doc.splitlines():
        m = re.match(r"^\s*\* - (``.*)$", line)
        if m:
            documented.update(re.findall(r"``([^`]+)``", m.group(1)))
    # values of curvature_type that the option set allows, minus those for which calc_curvature refuses outright (its branch is a bare raise)
    allowed = list(mesh_mod.Mesh.user_options_factory.create({}).get_metadata("curvature_type").allowed) if hasattr(
        mesh_mod.Mesh.user_options_factory.create({}), "get_metadata") else None
    if not allowed:
        allowed = ["curl(b/B)", "curl(b/B) with x-y derivatives", "bxkappa"]
        for a in allowed:   # the list above must be what the option set accepts
            mesh_mod.Mesh.user_options_factory.create({"curvature_type": a})
    tree = ast.parse(textwrap.dedent(inspect.getsource(mesh_mod.MeshRegion.calc_curvature)))
    refused = set()
    for n in ast.walk(tree):
        if isinstance(n, ast.If) and "curvature_type ==" in ast.unparse(n.test) and isinstance(n.body[0], ast.Raise) and len(n.test.comparators) == 1 \
                and isinstance(n.test.comparators[0], ast.Constant):
            refused.add(n.test.comparators[0].value)
    accepted = [a for a in allowed if a not in refused]
    if len(accepted) < 2:
        raise core.HarnessError("expected at least two accepted curvature types, got %r" % (accepted,))
    ct = accepted[env.choose(len(accepted))]
    shifted, with_pressure = bool(env.choose(2)), bool(env.choose(2))
    env.tag("curvature_type=%r shiftedmetric=%s pressure=%s" % (ct, shifted, with_pressure))

    class Auto(dict):
        def __missing__(self, k):
            a = mesh_mod.MultiLocationArray(1, 1)
            a.attributes = {}
            self[k] = a
            return a

    class R:
        pass
    reg = R()
    reg.__dict__ = Auto(myID=0, penalty_mask=numpy.zeros((1, 1)))
    eqreg = types.SimpleNamespace()
    if with_pressure:
        eqreg.pressure = lambda psi: None
    me = mesh_mod.BoutMesh.__new__(mesh_mod.BoutMesh)
    me.nx = me.ny = 1
    me.regions = {0: reg}
    me.region_indices = {0: (slice(0, 1), slice(0, 1))}
    me.fields_to_output, me.arrayXDirection_to_output = [], []
    me.user_options = types.SimpleNamespace(curvature_type=ct, shiftedmetric=shifted, orthogonal=True)
    me.equilibrium = types.SimpleNamespace(regions={"r": eqreg})
    me.y_groups = [[reg]]
    with patched((mesh_mod.Mesh, "geometry", lambda self: None)):
        me.geometry()
    env.witness("collected")
    wsrc = ast.parse(textwrap.dedent(inspect.getsource(mesh_mod.BoutMesh.writeGridfile)))
    direct, arrays, corners = set(), set(), set()
    for n in ast.walk(wsrc):
        if isinstance(n, ast.Call) and isinstance(n.func, ast.Attribute) and n.args and isinstance(n.args[0], ast.Constant) and isinstance(n.args[0].value, str):
            if n.func.attr == "write" and ast.unparse(n.func.value) == "f":
                direct.add(n.args[0].value)
            elif n.func.attr == "writeArray":
                arrays.add(n.args[0].value)
        if isinstance(n, ast.For) and "writeCorners" in ast.unparse(n) and isinstance(n.iter, ast.List):
            corners.update(e.value for e in n.iter.elts if isinstance(e, ast.Constant))
    written = set(direct) | set(me.arrayXDirection_to_output)
    for nm in list(me.fields_to_output) + list(arrays):
        written.update({nm, nm + "_xlow", nm + "_ylow"})
    for nm in corners:
        written.update({nm + "_corners", nm + "_lower_right_corners", nm + "_upper_right_corners", nm + "_upper_left_corners"})
    optional = set() if with_pressure else {"pressure"}     # documented as present only if the input had a pressure profile
    for nm in sorted(documented - optional):
        env.claim("documented_variable_collected_for_output:" + nm, nm in written)
    env.claim("no_field_collected_twice", len(set(me.fields_to_output)) == len(me.fields_to_output))


OBLIGATIONS.append(Ob("documented_variables_collected_under_every_option", ob_documented_variables_collected, tier="quick", family="file contents",
                      encodes=["hypnotoad.core.mesh:BoutMesh.geometry"],
                      desc="real BoutMesh.geometry collection on a stub region for every accepted curvature_type x shiftedmetric x pressure present/absent: "
                           "every documented variable is among the names handed to the writer",
                      stubs=["regions -> one 1x1 stub region holding every field", "Mesh.geometry (the per-region calculations) -> no-op"],
                      bounds="option values enumerated by the explorer from the option set of the current source", max_paths=40))


def ob_shipped_settings_accepted(env):
    """every shipped tokamak settings file is accepted, with every value evaluated, by each of the real option sets its keys are handed to (equilibrium,
    equilibrium regions, non-orthogonal spacing, mesh): the files are the whole domain of this clause, so they are enumerated, not abstracted"""
    import yaml
    import hypnotoad.cases.tokamak as tokm
    files = sorted(set(SHIPPED["hypnotoad.scripts.hypnotoad_geqdsk"]) | {
        os.path.relpath(os.path.join(dp, f), REPO) for dp, _, fs in os.walk(os.path.join(REPO, "integrated_tests")) for f in fs if f.endswith((".yml", ".yaml"))})
    seen = 0
    for rel in files:
        path = os.path.join(REPO, rel)
        if not os.path.exists(path):
            continue
        with open(path) as fh:
            opts = yaml.safe_load(fh) or {}
        if not isinstance(opts, dict):
            continue
        seen += 1
        problems = []
        try:
            eq_opts = tokm.TokamakEquilibrium.user_options_factory.create(dict(opts))
            dict(eq_opts)
            holder = types.SimpleNamespace(user_options=eq_opts, nonorthogonal_options_factory=eqm.Equilibrium.nonorthogonal_options_factory)
            eqm.Equilibrium.__init__(holder, dict(opts))                 # the real derivation of the non-orthogonal defaults from the equilibrium options
            dict(holder.nonorthogonal_options)
            reg_opts = eqm.EquilibriumRegion.user_options_factory.create(eq_opts)   # as EquilibriumRegion.__init__ does
            dict(reg_opts)
            dict(eqm.EquilibriumRegion.nonorthogonal_options_factory.create(holder.nonorthogonal_options)) if hasattr(
                eqm.EquilibriumRegion, "nonorthogonal_options_factory") else None
            dict(mesh_mod.BoutMesh.user_options_factory.create(dict(opts)))
        except (TypeError, ValueError, KeyError) as e:
            problems.append("%s: %s" % (type(e).__name__, str(e)[:160]))
        env.claim("shipped_settings_accepted_by_every_option_set:" + rel, not problems)
        if problems:
            env.note("%s -> %s" % (rel, problems[0])) if hasattr(env, "note") else None
    env.witness("files_read")
    env.claim("shipped_settings_files_found", seen >= 5)


OBLIGATIONS.append(Ob("shipped_settings_accepted_by_the_option_sets", ob_shipped_settings_accepted, tier="quick", family="option guards",
                      encodes=["hypnotoad.cases.tokamak:TokamakEquilibrium.user_options_factory", "hypnotoad.core.equilibrium:EquilibriumRegion.user_options_factory",
                               "hypnotoad.core.equilibrium:Equilibrium.__init__", "hypnotoad.core.mesh:BoutMesh.user_options_factory"],
                      desc="the shipped reference/example/integrated-test settings files pass the type and value checks of every real option set (all values evaluated)",
                      bounds="the shipped files (enumerated: they are the domain of the clause)"))


for _m in ("hypnotoad.scripts.hypnotoad_geqdsk", "hypnotoad.scripts.hypnotoad_circular"):
    OBLIGATIONS.append(Ob("script_option_filter_" + _m.rsplit("_", 1)[1], _mk_script_filter(_m), tier="quick", family="option guards", encodes=[_m + ":main"],
                          desc="the 'options that are not used' filter of the command-line entry point never rejects an option that the entry point itself reads "
                               "(symbolic option name, z3 strings); the shipped reference settings pass the filter",
                          stubs=["argument parsing, file I/O and grid generation are not executed (AST slice of the filter only)"],
                          bounds="one option key, any string"))
import hypnotoad.cases.tokamak as tok_mod  # noqa: E402
from harness.common import patched, PROXY   # noqa: E402


class _DescriptorDone(Exception):
    pass


def _mk_cdn_guard(psi_sign):
    """connected double null (nx_inter_sep = 0) with the two X-points on different flux surfaces: the real describeDoubleNull with symbolic
    separatrix values and symbolic radial grid values either refuses, or every cell centre it labels scrape-off layer lies outside BOTH separatrices"""
    def body(env):
        import harness.c08 as c08
        out = {}

        class Vals:
            def __init__(self, name, start):
                self.name, self.start, self.v = name, start, {}

            def __getitem__(self, k):
                if isinstance(k, slice):
                    return c08.FakeVals((self.name, "slice"))
                if k == 0:
                    return self.start
                if k not in self.v:
                    self.v[k] = env.real("psi_vals_%s_%d" % (self.name, k))
                    prev = self[k - 1]
                    env.assume((self.v[k] - prev) * psi_sign > 0)   # make1dGrid only returns monotone values (separate obligation)
                return self.v[k]

        def pre(eq):
            p1 = env.real("psi_sep_second")
            env.assume((p1 - eq.psi_sep[0]) * psi_sign >= 0)
            env.assume((eq.psi_sol - p1) * psi_sign > 0)
            eq.psi_sep = [eq.psi_sep[0], p1]
            out["p1"] = p1

            def seg(segments):
                return {n: dict(s2, psi_vals=Vals(n, s2["psi_start"])) for n, s2 in segments.items()}
            eq.segmentsWithPsivals = seg
            try:
                with patched((tok_mod, "np", PROXY)):
                    leg, corer, segments, conns = eq.describeDoubleNull()
                out["result"] = segments
            except ValueError as e:
                out["error"] = str(e)
            raise _DescriptorDone()

        try:
            c08.build(env, "cdn", 0, False, pre=pre, psi_sign=psi_sign)
        except _DescriptorDone:
            pass
        env.witness("descriptor_ran")
        if "error" in out:
            env.tag("refused")
            env.claim("refusal_names_the_reason", "connected double-null" in out["error"])
            return
        env.tag("accepted")
        segs = out["result"]
        p1 = out["p1"]
        for n in ("inner_sol", "outer_sol"):
            centre = segs[n]["psi_vals"][1]
            env.claim("first_sol_cell_centre_outside_second_separatrix:%s" % n, (centre - p1) * psi_sign >= 0)
        # not over-strict: a second separatrix inside the first half cell of both SOL segments is gridded (an exactly connected double null is the
        # shipped example)
    return body


def _mk_cdn_accepts(psi_sign):
    def body(env):
        import harness.c08 as c08
        out = {}

        def pre(eq):
            d = env.real("separatrix_gap", lo=0.0, hi=0.01)
            p0 = eq.psi_sep[0]
            eq.psi_sep = [p0, p0 + psi_sign * d]

            class Lin:
                def __init__(self, start):
                    self.start = start

                def __getitem__(self, k):
                    return c08.FakeVals("s") if isinstance(k, slice) else self.start + psi_sign * 0.02 * k
            eq.segmentsWithPsivals = lambda segments: {n: dict(s2, psi_vals=Lin(s2["psi_start"])) for n, s2 in segments.items()}
            try:
                with patched((tok_mod, "np", PROXY)):
                    eq.describeDoubleNull()
                out["ok"] = True
            except ValueError as e:
                out["ok"] = False
            raise _DescriptorDone()

        try:
            c08.build(env, "cdn", 0, False, pre=pre, psi_sign=psi_sign)
        except _DescriptorDone:
            pass
        env.witness("descriptor_ran")
        env.claim("separatrix_inside_first_half_cell_is_gridded", out["ok"])
    return body


for _s, _n in ((1.0, "psi_increasing"), (-1.0, "psi_decreasing")):
    OBLIGATIONS.append(Ob("connected_double_null_guard_%s" % _n, _mk_cdn_guard(_s), tier="quick", family="topology guards",
                          encodes=["hypnotoad.cases.tokamak:TokamakEquilibrium.describeDoubleNull"],
                          desc="nx_inter_sep=0 with distinct separatrices: refused, or the first SOL cell centre is outside the second separatrix",
                          bounds="symbolic second-separatrix psi between the first separatrix and psi_sol; symbolic monotone radial values; symbolic sizes",
                          max_paths=200))
    OBLIGATIONS.append(Ob("connected_double_null_accepts_%s" % _n, _mk_cdn_accepts(_s), tier="quick", family="topology guards",
                          encodes=["hypnotoad.cases.tokamak:TokamakEquilibrium.describeDoubleNull"],
                          desc="a second separatrix within the first half SOL cell (gap <= 0.01 with centres 0.02 apart) is gridded, not refused",
                          bounds="uniform radial values; symbolic gap", max_paths=100))
OBLIGATIONS.append(Ob("geometry_stage_order", ob_geometry_order, tier="quick", family="file contents", encodes=["hypnotoad.core.mesh:Mesh.geometry"],
                      desc="distances, geometry1, geometry2, zShift, metric: each stage completed for all regions before the next starts", bounds="3 recording regions"))
OBLIGATIONS.append(Ob("documented_variables_have_a_writer", ob_documented_variables, tier="quick", family="file contents",
                      encodes=["hypnotoad.core.mesh:BoutMesh.geometry", "hypnotoad.core.mesh:BoutMesh.writeGridfile"],
                      desc="every variable named in doc/grid-file.rst is collected/written somewhere in the current source (structural; no arithmetic to decide)",
                      bounds="names only; shapes are decided under C01 (file_variables_from_global_arrays)"))
OBLIGATIONS.append(Ob("makeConnection_guards", ob_makeconnection, tier="quick", family="topology guards", encodes=["hypnotoad.core.equilibrium:Equilibrium.makeConnection"],
                      desc="nx mismatch, double connection and unordered region container are refused; an accepted connection is recorded on both regions", bounds="nx in 1..9 symbolic"))
OBLIGATIONS.append(Ob("mesh_option_consistency_guard", ob_option_consistency, tier="quick", family="option guards", encodes=["hypnotoad.core.mesh:Mesh.__init__"],
                      desc="settings that differ from the ones the equilibrium was created with are refused; accepted => equal on all common keys", bounds="3 keys, values 0..3"))
# shared guard contracts
OBLIGATIONS.append(Ob("make1dGrid_guard", c09.ob_make1dgrid, tier="quick", family="radial grid", encodes=["hypnotoad.core.equilibrium:Equilibrium.make1dGrid"],
                      desc="returns a strictly monotone grid or raises", bounds="n in 1..3"))
OBLIGATIONS.append(Ob("checkMonotonic_guard", c10.ob_checkmonotonic, tier="quick", family="poloidal spacing", encodes=["hypnotoad.core.equilibrium:EquilibriumRegion._checkMonotonic"],
                      desc="returns => non-decreasing on the index grid", bounds="5 index points"))
OBLIGATIONS.append(Ob("get_distance_guard", c10.ob_get_distance, tier="quick", family="poloidal spacing", encodes=["hypnotoad.core.equilibrium:PsiContour.get_distance"],
                      desc="returns => strictly increasing distances", bounds="4 points"))
OBLIGATIONS.append(Ob("calcHy_positive_or_raises", c05.ob_hy_refuses_nonpositive, tier="quick", family="hy", encodes=["hypnotoad.core.mesh:MeshRegion.calcHy"],
                      desc="returns => hy > 0 at all four locations", bounds="1 region, arbitrary distances"))
for _o in (True, False):
    OBLIGATIONS.append(Ob("jacobian_selfcheck_%s" % ("orth" if _o else "nonorth"), c02._mk_inverse(_o, 1.0, 1.0), tier="quick", family="metric",
                          encodes=["hypnotoad.core.mesh:MeshRegion.calcMetric"], desc="the Jacobian self-check cannot fire on admissible input and the metric it protects is self-consistent",
                          bounds="all reals"))
for _o in (True, False):
    for _bs in (1.0, -1.0):
        OBLIGATIONS.append(Ob("jacobian_check_rejects_folded_cells_%s_bpsign%+d" % ("orth" if _o else "nonorth", int(_bs)), c02._mk_jacobian_guard(_o, _bs), tier="quick", family="metric",
                              encodes=["hypnotoad.core.mesh:MeshRegion.calcMetric"],
                              desc="hy of arbitrary sign at one entry (each entry of centre, xlow, ylow, corners in turn): calcMetric returns only if it is > 0 (last guard against a folded cell)",
                              bounds="nx=ny=1 (all entries of all four locations), all values symbolic"))
for _inc in (True, False):
    OBLIGATIONS.append(Ob("bp_sign_guard_psi_%s" % ("increasing" if _inc else "decreasing"), c02._mk_geometry1(_inc), tier="quick", family="fields",
                          encodes=["hypnotoad.core.mesh:MeshRegion.geometry1"], desc="returns => sign(Bpxy) = bpsign everywhere; raises only on a genuine sign mismatch", bounds="nx=1, ny=3"))
OBLIGATIONS.append(Ob("ddx_finite_at_all_locations", c06._mk_ddx(True, True), tier="quick", family="derivatives",
                      encodes=["hypnotoad.core.mesh:MeshRegion.DDX", "hypnotoad.core.mesh:MeshRegion.geometry1"],
                      desc="no division by a zero dx at centre, xlow, ylow, corners (ShiftTorsion finite)", bounds="3 radial regions, nx=2"))
