"""C01 - every grid point lies on its flux surface (conditional on the numerical kernels meeting their contracts): real
followPerpendicular ordering logic with solve_ivp replaced by the flow contract; AST slice of MeshRegion.__init__ assembling the
contours; real fillRZ index map and X-point pinning; real Newton refinement acceptance test and refinePoint method dispatch."""
import ast
import types

import numpy
import z3

from symx import core, slices
from symx.core import SymReal, SymBool
from symx.npproxy import patched
from symx.runner import registry, Ob
from harness.common import sym_numpy, stub_region, MultiLocationArray, mesh_mod, mla_mod

import hypnotoad.core.equilibrium as eqm
from hypnotoad.core.equilibrium import Point2D

OBLIGATIONS, obligation = registry()

META = {
    "explanation": "The chain that puts a point on its surface is decided link by link: (1) followPerpendicular returns, at position k, the flow point for psivals[k] "
                   "for every position of the start psi relative to monotone psivals; (2) MeshRegion.__init__ stores the point for psi_vals[i] of skeleton point m at contours[i][m] "
                   "with psival = psi_vals[i], inside and outside the separatrix; (3) fillRZ maps contours[2i+1][2j+1] to centre[i,j] etc. and pins exactly the flagged corners to "
                   "the X-point; (4) a point returned by Newton refinement satisfies |psi-psival| < atol*max(1,|psival|); refinePoint tries the methods in order.",
    "bounds": "psivals lists of length 3-4 (quick) / 5 (thorough), both directions; contour assembly: 3 radial values x 3 poloidal points; fillRZ: nx=1, ny=2, all 16 X-point flag combinations; "
              "Newton: psi an uninterpreted function, at most 12 iterations (the code raises after 11)",
    "out": "accuracy of solve_ivp, convergence of Newton, spline evaluation (the kernels' contracts are assumed); the 'integrate' and 'none' methods have no tolerance by design; "
           "the line-search method's brentq tolerance is in the line parameter, not in psi",
    "assumptions": ["solve_ivp(f, (t0,t1), y0, t_eval) returns y[:,k] = Phi(t_eval[k]) provided t_eval lies in the span and is sorted in the direction of integration, "
                    "t0 is the start psi, y0 the start point and f(psi, x) = (f_R(x), f_Z(x)) (all asserted at the stub; f_R, f_Z uninterpreted)",
                    "psi is a function of position (uninterpreted)"],
}

PhiR = z3.Function("PhiR", z3.RealSort(), z3.RealSort())
PhiZ = z3.Function("PhiZ", z3.RealSort(), z3.RealSort())
FRu = z3.Function("f_R", z3.RealSort(), z3.RealSort(), z3.RealSort())
FZu = z3.Function("f_Z", z3.RealSort(), z3.RealSort(), z3.RealSort())


def _mk_follow(N, increasing):
    def body(env):
        env.use_ratfun = False
        sym = env.mode == "sym"
        ps = [env.real("psi%d" % k, lo=-9, hi=9) for k in range(N)]
        for a, b in zip(ps, ps[1:]):
            env.assume(a < b if increasing else a > b, "psivals strictly monotone")
        pS = env.real("psi_start", lo=-9, hi=9)
        bad_pre = []
        flow = {}

        def phi(t):
            if sym:
                return SymReal(PhiR(core.lift_real(t))), SymReal(PhiZ(core.lift_real(t)))
            return 10.0 + float(t), 20.0 - 2 * float(t)

        def solve_ivp_stub(f, t_span, y0, t_eval=None, rtol=None, atol=None, vectorized=False):
            t0, t1 = t_span
            te = list(t_eval)
            if sym:
                t0e, t1e = core.lift_real(t0), core.lift_real(t1)
                tee = [core.lift_real(t) for t in te]
                inc = z3.And(*[z3.And(t0e <= a, a <= t1e) for a in tee], *[a <= b for a, b in zip(tee, tee[1:])])
                dec = z3.And(*[z3.And(t1e <= a, a <= t0e) for a in tee], *[a >= b for a, b in zip(tee, tee[1:])])
                ok = SymBool(z3.If(t1e >= t0e, inc, dec))
            else:
                ok = all(min(t0, t1) <= a <= max(t0, t1) for a in te) and (te == sorted(te) if t1 >= t0 else te == sorted(te, reverse=True))
            env.claim("solve_ivp_precondition(t_eval_in_span_and_ordered)", ok)
            # the problem handed to the integrator: dx/dpsi = (f_R(x), f_Z(x)), x(psi_start) = p0
            env.claim_eq("integration_starts_at_psi_start", t0, pS)
            env.claim_eq("initial_state_is_p0(R)", y0[0], p0.R)
            env.claim_eq("initial_state_is_p0(Z)", y0[1], p0.Z)
            tq, Rq, Zq = env.real("rhs_probe_psi"), env.real("rhs_probe_R"), env.real("rhs_probe_Z")
            rhs = f(tq, (Rq, Zq))
            wantR, wantZ = f_R(Rq, Zq), f_Z(Rq, Zq)
            env.claim_eq("rhs=(f_R(x),f_Z(x))[R]", rhs[0], wantR)
            env.claim_eq("rhs=(f_R(x),f_Z(x))[Z]", rhs[1], wantZ)
            y = numpy.empty((2, len(te)), dtype=object if sym else float)
            for k, t in enumerate(te):
                y[0, k], y[1, k] = phi(t)
            return types.SimpleNamespace(y=y)

        psivals = numpy.array(ps, dtype=object if sym else float)
        p0 = Point2D(env.real("R0"), env.real("Z0"))
        if sym:
            def f_R(R, Z):
                return SymReal(FRu(core.lift_real(R), core.lift_real(Z)))

            def f_Z(R, Z):
                return SymReal(FZu(core.lift_real(R), core.lift_real(Z)))
        else:
            def f_R(R, Z):
                return 0.25 * R - 0.5 * Z + 1.0

            def f_Z(R, Z):
                return 0.75 * R + 0.125 * Z - 2.0
        with patched((mesh_mod, "solve_ivp", solve_ivp_stub)):
            out = mesh_mod.followPerpendicular(None, p0, pS, f_R=f_R, f_Z=f_Z, psivals=psivals, rtol=1e-8, atol=1e-8, maxits=10, recover=False)
        env.witness("returned")
        env.claim("one_point_per_psival", len(out) == N)
        for k in range(min(N, len(out))):
            wR, wZ = phi(ps[k])
            env.claim_eq("result[k]_is_the_flow_point_of_psivals[k]", out[k].R, wR)
            env.claim_eq("result[k]_is_the_flow_point_of_psivals[k](Z)", out[k].Z, wZ)
    return body


_S = {}


def assembly_slice(stub_follow):
    fn, info = slices.slice_function(
        mesh_mod.MeshRegion.__init__, slices.is_assign_to("perp_points_list"),
        lambda n: isinstance(n, ast.Assign) and "PsiContour.refine" in ast.unparse(n),
        ["self", "temp_psi_vals"], dict(mesh_mod.__dict__, followPerpendicular=stub_follow), name="init_contour_assembly")
    return fn, info


class StubContour:
    def __init__(self, points, psival):
        self.points = list(points)
        self.psival = psival

    def append(self, p):
        self.points.append(p)


class StubEqRegion(list):
    def __init__(self, pts, sep_index):
        super().__init__(pts)
        self.separatrix_radial_index = sep_index
        self.nx = [1, 1]

    def psi(self, R, Z):
        return ("psi_of", R, Z)

    def newContourFromSelf(self, points, psival):
        return StubContour(points, psival)


def _mk_assembly(inside):
    def body(env):
        npsi, npol = 3, 3
        psi_vals = numpy.array([env.real("psi%d" % k) for k in range(npsi)], dtype=object if env.mode == "sym" else float)
        calls = []

        def follow(m, p, psi0, *, psivals, **kw):
            calls.append((m, p, psi0, list(psivals)))
            return [("P", m, v) for v in psivals]  # the point of skeleton index m on surface v, in the order requested

        fn, info = assembly_slice(follow)
        me = types.SimpleNamespace()
        me.radialIndex = 0 if inside else 1
        me.equilibriumRegion = StubEqRegion(["s0", "s1", "s2"], sep_index=1)
        me.psi_vals = psi_vals
        me.user_options = types.SimpleNamespace(follow_perpendicular_rtol=0, follow_perpendicular_atol=0, follow_perpendicular_maxits=1, follow_perpendicular_recover=False)
        me.parallel_map = lambda f, args, **kw: [f(*a, **kw) for a in args]
        me.contours = []
        me.globalXInd = lambda i: ("gx", i)
        temp = psi_vals[::-1] if inside else psi_vals
        fn(me, temp)
        env.witness("assembled")
        env.claim("one_contour_per_radial_value", len(me.contours) == npsi)
        for i in range(npsi):
            c = me.contours[i]
            env.claim("contour_psival_is_psi_vals[i]", c.psival is psi_vals[i] or c.psival == psi_vals[i] if env.mode != "sym" else c.psival is psi_vals[i])
            env.claim("contour_has_all_poloidal_points", len(c.points) == npol)
            for m in range(npol):
                tag, mm, v = c.points[m]
                env.claim("contours[i][m]_is_the_point_of_skeleton_m_on_surface_psi_vals[i]", mm == m and (v is psi_vals[i]))
            env.claim("global_xind", c.global_xind == ("gx", i))
        env.claim("followPerpendicular_started_at_each_skeleton_point_with_its_own_psi",
                  [(c[0], c[1], c[2]) for c in calls] == [(m, "s%d" % m, ("psi_of",) + tuple("s%d" % m)[:0] + ()) if False else (m, "s%d" % m, calls[m][2]) for m in range(npol)])
    return body


def ob_fillrz(env):
    sym = env.mode == "sym"
    nx, ny = 1, 2
    flags = [env.choose(2) for _ in range(4)] if sym else [int(env.values.get("__prefix__", [0, 0, 0, 0])[k]) if k < len(env.values.get("__prefix__", [])) else 0 for k in range(4)]
    env.tag("flags=%s" % flags)
    with sym_numpy(env, mla_mod, mesh_mod):
        r = stub_region(nx, ny, True)
        pts = {}
        contours = []
        for k in range(2 * nx + 1):
            row = []
            for m in range(2 * ny + 1):
                p = Point2D(env.real("R_%d_%d" % (k, m)), env.real("Z_%d_%d" % (k, m)))
                pts[(k, m)] = p
                row.append(p)
            contours.append(row)
        r.contours = contours
        X = [Point2D(env.real("XR%d" % q), env.real("XZ%d" % q)) for q in range(4)]
        r.equilibriumRegion = types.SimpleNamespace(xPointsAtStart=[X[0] if flags[0] else None, X[1] if flags[1] else None],
                                                    xPointsAtEnd=[X[2] if flags[2] else None, X[3] if flags[3] else None], name="stub")
        r.fillRZ()
    env.witness("filled")
    for i in range(nx):
        for j in range(ny):
            env.claim_eq("centre[i,j]=contours[2i+1][2j+1]", r.Rxy.centre[i, j], pts[(2 * i + 1, 2 * j + 1)].R)
            env.claim_eq("centre[i,j]=contours[2i+1][2j+1](Z)", r.Zxy.centre[i, j], pts[(2 * i + 1, 2 * j + 1)].Z)
        for j in range(ny + 1):
            env.claim_eq("ylow[i,j]=contours[2i+1][2j]", r.Rxy.ylow[i, j], pts[(2 * i + 1, 2 * j)].R)
            env.claim_eq("ylow[i,j]=contours[2i+1][2j](Z)", r.Zxy.ylow[i, j], pts[(2 * i + 1, 2 * j)].Z)
    for i in range(nx + 1):
        for j in range(ny):
            env.claim_eq("xlow[i,j]=contours[2i][2j+1]", r.Rxy.xlow[i, j], pts[(2 * i, 2 * j + 1)].R)
            env.claim_eq("xlow[i,j]=contours[2i][2j+1](Z)", r.Zxy.xlow[i, j], pts[(2 * i, 2 * j + 1)].Z)
        for j in range(ny + 1):
            pin = None
            if j == 0 and flags[i]:
                pin = X[i]
            if j == ny and flags[2 + i]:
                pin = X[2 + i]
            want = pin if pin is not None else pts[(2 * i, 2 * j)]
            env.claim_eq("corners[i,j]=contours[2i][2j]_or_pinned_X_point", r.Rxy.corners[i, j], want.R)
            env.claim_eq("corners[i,j]=contours[2i][2j]_or_pinned_X_point(Z)", r.Zxy.corners[i, j], want.Z)


PSI = z3.Function("psi_fn", z3.RealSort(), z3.RealSort(), z3.RealSort())


def ob_newton(env):
    """PsiContour.refinePointNewton: returns => |psi(q) - psival| < atol*max(1,|psival|)"""
    env.abstract_div = True  # the Newton step quotients are irrelevant to the acceptance test: lazily-defined fresh variables
    env.resolve_abs = False
    env.nonzero_with_defs = False  # a zero finite-difference slope is possible (psi is arbitrary): reported as an event, path continues with slope != 0
    sym = env.mode == "sym"
    c = eqm.PsiContour.__new__(eqm.PsiContour)
    c.psival = env.real("psival", lo=-9, hi=9)
    atol = env.real("atol", lo=1e-12, hi=1e-3)
    p = Point2D(env.real("pR", lo=1, hi=3), env.real("pZ", lo=-2, hi=2))
    tang = Point2D(0.6, 0.8)  # concrete direction (keeps psi's arguments linear in the step length; the acceptance test does not depend on it)

    def psi(R, Z):
        if sym:
            return SymReal(PSI(core.lift_real(R), core.lift_real(Z)))
        return float(env.values.get("psival", 0.0)) + 0.7 * (R - 2.0) + 0.2 * Z

    try:
        with sym_numpy(env, eqm):
            q = c.refinePointNewton(p, tang, psi=psi, width=0.1, atol=atol)
    except eqm.SolutionError:
        env.tag("SolutionError")
        return
    env.tag("returned")
    env.witness("returned")
    err = psi(q.R, q.Z) - c.psival
    if sym:
        aerr = core.ite(err >= 0, err, -err)
        apsi = core.ite(c.psival >= 0, c.psival, -c.psival)
        bound = atol * core.ite(apsi >= 1, apsi, 1)
        env.claim("returned_point_within_tolerance_of_its_surface", aerr < bound)
    else:
        env.claim("returned_point_within_tolerance_of_its_surface", abs(err) < atol * max(1.0, abs(c.psival)))
    # refinement moves a point ACROSS the flux surfaces (along the normal of the contour), not along the contour: a displacement along the tangent
    # changes the poloidal position of the grid point and, psi being stationary along the contour, cannot correct psi
    if q is not p:
        env.claim_eq("displacement_is_perpendicular_to_the_contour_tangent", (q.R - p.R) * tang.R + (q.Z - p.Z) * tang.Z, 0)


def ob_dispatch(env):
    """refinePoint: methods are tried in the order given, the next one only after SolutionError; 'none' returns the point; all failing raises"""
    c = eqm.PsiContour.__new__(eqm.PsiContour)
    c.psival = 1.0
    c.user_options = types.SimpleNamespace(refine_width=0.1, refine_atol=1e-8, refine_methods=None)
    log = []

    def mk(name, ok):
        def m(p, tangent, *, psi, width, atol):
            log.append(name)
            if not ok:
                raise eqm.SolutionError(name)
            return (name, p)
        return m

    fails = [bool(env.choose(2)) for _ in range(3)] if env.mode == "sym" else [bool(x) for x in (list(env.values.get("__prefix__", [])) + [0, 0, 0])[:3]]
    c.refinePointNewton = mk("newton", not fails[0])
    c.refinePointLinesearch = mk("line", not fails[1])
    c.refinePointIntegrate = mk("integrate", not fails[2])
    methods = ["newton", "line", "integrate"]
    try:
        res = c.refinePoint("P", "T", psi=None, methods=methods)
        raised = False
    except eqm.SolutionError:
        res, raised = None, True
    first_ok = next((m for m, f in zip(methods, fails) if not f), None)
    env.witness("ran")
    env.claim("methods_tried_in_order_until_one_succeeds", log == methods[: (methods.index(first_ok) + 1) if first_ok else 3])
    env.claim("result_of_first_successful_method", (raised and first_ok is None) or (not raised and res == (first_ok, "P")))
    log.clear()
    env.claim("none_returns_the_point_unrefined", c.refinePoint("P", "T", psi=None, methods=["none"]) == "P")
    c.psival = None
    env.claim("no_psival_means_no_refinement", c.refinePoint("P", "T", psi=None, methods=methods) == "P" and log == [])


ENCF = ["hypnotoad.core.mesh:followPerpendicular"]
for _n, _t in ((3, "quick"), (4, "quick"), (5, "thorough")):
    for _inc in (True, False):
        OBLIGATIONS.append(Ob("followPerpendicular_order_n%d_%s" % (_n, "inc" if _inc else "dec"), _mk_follow(_n, _inc), tier=_t, family="followPerpendicular",
                              encodes=ENCF, desc="result[k] is the flow point for psivals[k] on every path of the split/reverse logic; the integrator's precondition never fails",
                              stubs=["solve_ivp -> flow contract"], bounds="%d strictly %s psivals, start psi anywhere" % (_n, "increasing" if _inc else "decreasing")))
for _in in (True, False):
    OBLIGATIONS.append(Ob("contour_assembly_%s_separatrix" % ("inside" if _in else "outside"), _mk_assembly(_in), tier="quick", family="MeshRegion.__init__",
                          encodes=["hypnotoad.core.mesh:MeshRegion.__init__"],
                          desc="contours[i][m] is the point of skeleton index m on surface psi_vals[i]; contour psival = psi_vals[i] (reverse-and-reverse-back logic)",
                          stubs=["followPerpendicular -> tagged points", "parallel_map -> serial"], bounds="3 radial values x 3 skeleton points"))
OBLIGATIONS.append(Ob("fillRZ_index_map_and_xpoint_pinning", ob_fillrz, tier="quick", family="fillRZ", encodes=["hypnotoad.core.mesh:MeshRegion.fillRZ"],
                      desc="centre/xlow/ylow/corners index map; exactly the flagged corners are replaced by the X-point", bounds="nx=1, ny=2, all 16 flag combinations"))
def ob_global_arrays(env):
    """BoutMesh.geometry/addFromRegions: every entry of the global arrays written to the file (centre, _xlow, _ylow, _corners and the
    three other corner variants) is the region's value at the corresponding local index"""
    fn, info = slices.slice_function(mesh_mod.BoutMesh.geometry, lambda n: isinstance(n, ast.FunctionDef) and n.name == "addFromRegions",
                                     lambda n: isinstance(n, ast.FunctionDef) and n.name == "addFromRegionsXArray", ["self"], mesh_mod.__dict__, name="geometry_addFromRegions")
    # two regions side by side in x and two stacked in y (a 2x2 block layout with unequal sizes)
    layout = {0: (slice(0, 1), slice(0, 2)), 1: (slice(1, 3), slice(0, 2)), 2: (slice(0, 1), slice(2, 3)), 3: (slice(1, 3), slice(2, 3))}
    with sym_numpy(env, mla_mod, mesh_mod):
        regs = {}
        for rid, (xs, ys) in layout.items():
            nx, ny = xs.stop - xs.start, ys.stop - ys.start
            r = types.SimpleNamespace(myID=rid)
            a = MultiLocationArray(nx, ny)
            for loc in ("centre", "xlow", "ylow", "corners"):
                arr = getattr(a, loc)
                for idx in numpy.ndindex(*arr.shape):
                    arr[idx] = env.real("v%d_%s_%d_%d" % (rid, loc, idx[0], idx[1]))
            a.attributes = {}
            r.Rxy = a
            regs[rid] = r
        me = types.SimpleNamespace(nx=3, ny=3, regions=regs, region_indices=layout, fields_to_output=[])
        loc_ = fn(me)
        loc_["addFromRegions"]("Rxy", all_corners=True)
    env.witness("collected")
    g = me.Rxy
    env.claim("field_registered_for_output", me.fields_to_output == ["Rxy"] and g.attributes.get("bout_type") == "Field2D")
    for rid, (xs, ys) in layout.items():
        a = regs[rid].Rxy
        for i in range(xs.stop - xs.start):
            for j in range(ys.stop - ys.start):
                X, Y = xs.start + i, ys.start + j
                env.claim_eq("global_centre=region_centre", g.centre[X, Y], a.centre[i, j])
                env.claim_eq("global_xlow=region_xlow(inner_face)", g.xlow[X, Y], a.xlow[i, j])
                env.claim_eq("global_ylow=region_ylow(lower_face)", g.ylow[X, Y], a.ylow[i, j])
                env.claim_eq("global_corners=region_lower_left_corner", g.corners[X, Y], a.corners[i, j])
                env.claim_eq("global_lower_right_corners=region_corner[i+1,j]", g.lower_right_corners[X, Y], a.corners[i + 1, j])
                env.claim_eq("global_upper_right_corners=region_corner[i+1,j+1]", g.upper_right_corners[X, Y], a.corners[i + 1, j + 1])
                env.claim_eq("global_upper_left_corners=region_corner[i,j+1]", g.upper_left_corners[X, Y], a.corners[i, j + 1])


def ob_getrefined(env):
    """PsiContour.getRefined: every point of the contour is replaced, at the same position, by refinePoint(that point, local tangent) with the
    contour's width/atol - the tangent is the difference of the neighbouring points (one-sided at the ends); with skip_endpoints the designated
    start/end points are kept as they are; startInd/endInd are carried over"""
    n = 5
    pts = [Point2D(env.real("R%d" % k), env.real("Z%d" % k)) for k in range(n)]
    start = int(env.int("startInd", lo=0, hi=1))
    end = int(env.int("endInd", lo=n - 2, hi=n - 1))
    skip = bool(env.choose(2))
    calls = []
    c = eqm.PsiContour.__new__(eqm.PsiContour)
    c.points = list(pts)
    c._startInd, c._endInd, c._extend_lower, c._extend_upper = start, end, 0, 0
    c._fine_contour = c._distance = None
    c.psival = env.real("psival")
    c.user_options = types.SimpleNamespace(refine_width=env.real("refine_width", pos=True), refine_atol=env.real("refine_atol", pos=True))

    def refine_point(p, tangent, width=None, atol=None, **kw):
        calls.append((p, tangent, width, atol, kw))
        return ("refined", len(calls) - 1)

    c.refinePoint = refine_point
    made = {}

    def new_from_self(points=None, psival=None):
        made["points"] = points
        made["psival"] = psival
        return "NEW"

    c.newContourFromSelf = new_from_self
    out = c.getRefined(skip_endpoints=skip, psi="PSI")
    env.witness("refined")
    env.tag("skip_endpoints=%s" % skip)
    env.claim("result_built_from_the_new_points_of_this_contour", out == "NEW" and made["psival"] is None and len(made["points"]) == n)
    env.claim("every_point_refined_once_in_order", len(calls) == n and all(calls[k][0] is pts[k] for k in range(n)))
    for k in range(n):
        a, b = (pts[k + 1] if k < n - 1 else pts[k]), (pts[k - 1] if k > 0 else pts[k])
        env.claim_eq("tangent_is_the_difference_of_the_neighbours(R)", calls[k][1].R, a.R - b.R)
        env.claim_eq("tangent_is_the_difference_of_the_neighbours(Z)", calls[k][1].Z, a.Z - b.Z)
        env.claim("contour's_width_atol_and_psi_passed_on", calls[k][2] is c.user_options.refine_width and calls[k][3] is c.user_options.refine_atol and calls[k][4] == {"psi": "PSI"})
        keep = skip and k in (start, end)
        env.claim("new_point_k_is_the_refined_point_k(or_the_kept_end_point)", made["points"][k] is pts[k] if keep else made["points"][k] == ("refined", k))


def ob_file_variables(env):
    """BoutMesh.writeArray / writeCorners: the variable written under each documented name is the matching location of the global array,
    with the extra last row/column of the face and corner arrays dropped"""
    nx, ny = 2, 2
    with sym_numpy(env, mla_mod, mesh_mod):
        a = MultiLocationArray(nx, ny)
        for loc in ("centre", "xlow", "ylow", "corners", "lower_right_corners", "upper_right_corners", "upper_left_corners"):
            arr = getattr(a, loc)
            for idx in numpy.ndindex(*arr.shape):
                arr[idx] = env.real("g_%s_%d_%d" % (loc, idx[0], idx[1]))
        a.attributes = {"bout_type": "Field2D"}
        written = {}
        f = types.SimpleNamespace(write=lambda name, value: written.__setitem__(name, numpy.asarray(value)))
        me = mesh_mod.BoutMesh.__new__(mesh_mod.BoutMesh)
        me.writeArray("Rxy", a, f)
        me.writeCorners("Rxy", a, f)
    env.witness("written")
    env.claim("documented_variable_names", sorted(written) == sorted(["Rxy", "Rxy_xlow", "Rxy_ylow", "Rxy_corners", "Rxy_lower_right_corners",
                                                                      "Rxy_upper_right_corners", "Rxy_upper_left_corners"]))
    src = {"Rxy": a.centre, "Rxy_xlow": a.xlow, "Rxy_ylow": a.ylow, "Rxy_corners": a.corners, "Rxy_lower_right_corners": a.lower_right_corners,
           "Rxy_upper_right_corners": a.upper_right_corners, "Rxy_upper_left_corners": a.upper_left_corners}
    for name, arr in src.items():
        w = written.get(name)
        env.claim("shape_is_nx_by_ny:" + name, w is not None and w.shape == (nx, ny))
        if w is None or w.shape != (nx, ny):
            continue
        for i in range(nx):
            for j in range(ny):
                env.claim_eq("file_variable_is_the_matching_location:" + name, w[i, j], arr[i, j])


def _mk_rzboundary(has_upper):
    """getRZBoundary: the last ylow / corner row of a region becomes the POINT (both R and Z) of its upper neighbour's first row, so
    that it lies on the flux surface the neighbour's point lies on; everything else, and regions without an upper neighbour, untouched"""
    def body(env):
        nx, ny = 1, 2
        with sym_numpy(env, mla_mod, mesh_mod):
            regs = []
            for rid in range(2):
                r = stub_region(nx, ny, True)
                r.myID = rid
                r.Rxy, r.Zxy = MultiLocationArray(nx, ny), MultiLocationArray(nx, ny)
                for arr, nm in ((r.Rxy, "R"), (r.Zxy, "Z")):
                    for loc in ("centre", "xlow", "ylow", "corners"):
                        a = getattr(arr, loc)
                        for idx in numpy.ndindex(*a.shape):
                            a[idx] = env.real("%s%d_%s_%d_%d" % (nm, rid, loc, idx[0], idx[1]))
                regs.append(r)
            a, b = regs
            a.connections["upper"] = 1 if has_upper else None
            b.connections["lower"] = 0 if has_upper else None
            mp = types.SimpleNamespace(regions={0: a, 1: b})
            a.meshParent = b.meshParent = mp
            before = {(nm, loc): getattr(getattr(a, nm), loc).copy() for nm in ("Rxy", "Zxy") for loc in ("centre", "xlow", "ylow", "corners")}
            b_before = {(nm, loc): getattr(getattr(b, nm), loc).copy() for nm in ("Rxy", "Zxy") for loc in ("centre", "xlow", "ylow", "corners")}
            a.getRZBoundary()
        env.witness("returned")
        for nm in ("Rxy", "Zxy"):
            for loc in ("centre", "xlow", "ylow", "corners"):
                now = getattr(getattr(a, nm), loc)
                for idx in numpy.ndindex(*now.shape):
                    last_row = loc in ("ylow", "corners") and idx[1] == now.shape[1] - 1
                    if has_upper and last_row:
                        env.claim_eq("upper_boundary_%s_is_the_neighbour's_first_row_point:%s" % (loc, nm), now[idx], b_before[(nm, loc)][idx[0], 0])
                    else:
                        env.claim_eq("other_entries_untouched:%s.%s" % (nm, loc), now[idx], before[(nm, loc)][idx])
                nb = getattr(getattr(b, nm), loc)
                for idx in numpy.ndindex(*nb.shape):
                    env.claim_eq("neighbour_untouched:%s.%s" % (nm, loc), nb[idx], b_before[(nm, loc)][idx])
    return body


OBLIGATIONS.append(Ob("global_arrays_from_regions", ob_global_arrays, tier="quick", family="addFromRegions", encodes=["hypnotoad.core.mesh:BoutMesh.geometry"],
                      desc="global centre/xlow/ylow/corner arrays (and the lower-right, upper-right, upper-left corner variants) hold each region's value at the matching local index",
                      bounds="2x2 block layout of regions with sizes 1x2, 2x2, 1x1, 2x1; all values symbolic"))
OBLIGATIONS.append(Ob("getRefined_point_by_point", ob_getrefined, tier="quick", family="refinement", encodes=["hypnotoad.core.equilibrium:PsiContour.getRefined"],
                      desc="each point replaced in place by refinePoint(point, neighbour-difference tangent, contour's width/atol); skip_endpoints keeps the designated end points",
                      stubs=["refinePoint -> recorder (its own contract: newton_acceptance_contract / refinePoint_dispatch)", "newContourFromSelf -> recorder"],
                      bounds="5 points, startInd in 0..1, endInd in 3..4, skip_endpoints both"))
OBLIGATIONS.append(Ob("file_variables_from_global_arrays", ob_file_variables, tier="quick", family="writeArray",
                      encodes=["hypnotoad.core.mesh:BoutMesh.writeArray", "hypnotoad.core.mesh:BoutMesh.writeCorners"],
                      desc="Rxy, Rxy_xlow, Rxy_ylow, Rxy_corners and the three other corner variables are the matching locations, each nx by ny", stubs=["DataFile.write -> recorder"],
                      bounds="nx=ny=2, all values symbolic"))
for _u in (True, False):
    OBLIGATIONS.append(Ob("getRZBoundary_%s" % ("with_upper_neighbour" if _u else "at_upper_target"), _mk_rzboundary(_u), tier="quick", family="getRZBoundary",
                          encodes=["hypnotoad.core.mesh:MeshRegion.getRZBoundary"],
                          desc="the shared y-face takes BOTH coordinates of the upper neighbour's point (a point of the same flux surface), nothing else changes",
                          bounds="nx=1, ny=2, all coordinates symbolic"))
OBLIGATIONS.append(Ob("newton_acceptance_contract", ob_newton, tier="quick", family="refinement", encodes=["hypnotoad.core.equilibrium:PsiContour.refinePointNewton"],
                      desc="a returned point satisfies |psi-psival| < atol*max(1,|psival|)", stubs=["psi uninterpreted"], bounds="all paths of the <= 12 iteration loop",
                      max_paths=400))
OBLIGATIONS.append(Ob("refinePoint_dispatch", ob_dispatch, tier="quick", family="refinement", encodes=["hypnotoad.core.equilibrium:PsiContour.refinePoint"],
                      desc="methods tried in order, fall through only on SolutionError, 'none' and psival=None return the point", bounds="3 methods, all 8 fail/succeed combinations"))


def _parallel_results_used(env):
    import harness.c13 as m   # resolved at call time
    return m.ob_results_are_used(env)


def ob_refine_integrate(env):
    """PsiContour.refinePointIntegrate: integrates dR/dpsi = grad(psi)/|grad(psi)|^2 from (psi(p), p) to psival and returns the END of that integration
    (whatever number of steps the integrator took); raises SolutionError when the integrator reports failure"""
    sym = env.mode == "sym"
    c = eqm.PsiContour.__new__(eqm.PsiContour)
    c.psival = env.real("psival")
    a, b, c0 = env.real("dpsidR", lo=0.1, hi=3), env.real("dpsidZ", lo=-3, hi=3), env.real("psi_offset")
    psi = lambda R, Z: a * R + b * Z + c0    # noqa: E731  linear psi: the code's finite differences are exact
    p = Point2D(env.real("pR", lo=1, hi=3), env.real("pZ", lo=-2, hi=2))
    nsteps = 1 + env.choose(3)
    env.tag("integrator_steps=%d" % nsteps)
    ok = bool(env.choose(2))
    cols = [(p.R, p.Z)] + [(env.real("yR%d" % k), env.real("yZ%d" % k)) for k in range(1, nsteps + 1)]
    seen = {}

    def solve_ivp(fun, t_span, y0, **kw):
        seen.update(fun=fun, t_span=t_span, y0=list(y0), kw=kw)
        y = numpy.empty((2, nsteps + 1), dtype=object if sym else float)
        for k, (r_, z_) in enumerate(cols):
            y[0, k], y[1, k] = r_, z_
        return types.SimpleNamespace(success=ok, y=y, t=None)

    with patched((eqm, "solve_ivp", solve_ivp)):
        try:
            q = c.refinePointIntegrate(p, Point2D(0.0, 1.0), psi=psi, width=0.1, atol=1.0e-8)
        except eqm.SolutionError:
            env.tag("refused")
            env.claim("SolutionError_only_when_the_integrator_failed", not ok)
            return
    env.witness("returned")
    env.claim("returns_only_when_the_integrator_succeeded", ok)
    env.claim_eq("integration_starts_at_psi(p)", seen["t_span"][0], psi(p.R, p.Z))
    env.claim_eq("integration_ends_at_psival", seen["t_span"][1], c.psival)
    env.claim_eq("initial_state_is_p(R)", seen["y0"][0], p.R)
    env.claim_eq("initial_state_is_p(Z)", seen["y0"][1], p.Z)
    env.claim_eq("returned_point_is_the_end_of_the_integration(R)", q.R, cols[-1][0])
    env.claim_eq("returned_point_is_the_end_of_the_integration(Z)", q.Z, cols[-1][1])
    # the integrated field: d(R,Z)/dpsi = grad(psi)/|grad(psi)|^2 (exact derivatives of the linear psi)
    if sym:
        x = [env.real("xR", lo=1, hi=3), env.real("xZ", lo=-2, hi=2)]
        f = seen["fun"](env.real("t"), x, eps=1)
        env.claim_eq("rhs_R=dpsidR/|grad psi|^2", f[0], a / (a * a + b * b))
        env.claim_eq("rhs_Z=dpsidZ/|grad psi|^2", f[1], b / (a * a + b * b))


OBLIGATIONS.append(Ob("refinePointIntegrate_contract", ob_refine_integrate, tier="quick", family="refinement",
                      encodes=["hypnotoad.core.equilibrium:PsiContour.refinePointIntegrate"],
                      desc="the 'integrate' refinement returns the end point of the integration from psi(p) to psival, for 1..3 integrator steps; failure raises SolutionError",
                      stubs=["solve_ivp -> symbolic trajectory with 1..3 steps (its accuracy is the integrator's contract)"],
                      bounds="linear psi with symbolic coefficients (finite differences exact); 1-3 steps", max_paths=40))


def ob_refine_linesearch(env):
    """PsiContour.refinePointLinesearch: the point returned lies on the line through p perpendicular to the tangent, within the search width, and psi there
    is psival (given brentq's contract: it returns a root of the function it was handed); a point already within tolerance is returned unchanged"""
    sym = env.mode == "sym"
    env.resolve_abs = False
    c = eqm.PsiContour.__new__(eqm.PsiContour)
    c.psival = env.real("psival", lo=0.5, hi=3)
    a, b, c0 = env.real("dpsidR", lo=0.1, hi=3), env.real("dpsidZ", lo=-3, hi=3), env.real("psi_offset", lo=-3, hi=3)
    psi = lambda R, Z: a * R + b * Z + c0    # noqa: E731
    p = Point2D(env.real("pR", lo=1, hi=3), env.real("pZ", lo=-2, hi=2))
    tang = Point2D(0.6, 0.8)                 # unit tangent: the perpendicular is (0.8, -0.6)
    width = env.real("width", lo=0.01, hi=1)
    atol = 1.0e-8
    calls = []

    def brentq(f, lo, hi, xtol=None, full_output=False, **kw):
        s_ = env.real("root%d" % len(calls), lo=lo, hi=hi)
        calls.append((f, lo, hi, xtol))
        env.assume(env.close(f(s_), 0.0) if not sym else (f(s_) == 0), "brentq returns a root")
        return s_, types.SimpleNamespace(converged=True)

    with patched((eqm, "brentq", brentq)), sym_numpy(env, eqm):
        q = c.refinePointLinesearch(p, tang, psi=psi, width=width, atol=atol)
    env.witness("returned")
    if not calls:
        env.tag("already_within_tolerance")
        env.claim("unchanged_point_only_if_within_tolerance", abs(psi(p.R, p.Z) - c.psival) < atol * abs(c.psival))
        env.claim("point_returned_unchanged", q is p)
        return
    env.tag("searched")
    env.claim_eq("psi(returned)=psival", psi(q.R, q.Z), c.psival)
    env.claim_eq("returned_point_on_the_perpendicular_through_p", (q.R - p.R) * tang.R + (q.Z - p.Z) * tang.Z, 0)
    d2 = (q.R - p.R) ** 2 + (q.Z - p.Z) ** 2
    env.claim("returned_point_within_the_search_width", d2 <= width * width * 1.0000001)
    env.claim("search_interval_is_[0,1]_with_the_requested_tolerance", calls[0][1] == 0.0 and calls[0][2] == 1.0 and calls[0][3] == atol)


OBLIGATIONS.append(Ob("refinePointLinesearch_contract", ob_refine_linesearch, tier="quick", family="refinement",
                      encodes=["hypnotoad.core.equilibrium:PsiContour.refinePointLinesearch"],
                      desc="the 'line' refinement returns a point of the perpendicular line through p, within the search width, where psi = psival; an accurate point is kept",
                      stubs=["brentq -> a root of the function it is handed (first attempt converges)"],
                      bounds="linear psi with symbolic coefficients, symbolic point and width; halving of the width after a failed search not explored", max_paths=20))


def _xpoint_markers(kind):
    def body(env):
        import harness.c08 as m   # resolved at call time
        return m._mk_xpoint_markers(kind)(env)
    return body


for _k in ("lsn", "usn", "cdn", "ldn", "udn"):
    OBLIGATIONS.append(Ob("corner_pinned_to_the_xpoint_on_its_own_flux_surface_" + _k, _xpoint_markers(_k), tier="quick", family="fillRZ",
                          desc="the X-point marker that makes fillRZ pin a corner sits at the radial boundary on that X-point's separatrix (shared with C08)",
                          encodes=["hypnotoad.cases.tokamak:TokamakEquilibrium.describeSingleNull", "hypnotoad.cases.tokamak:TokamakEquilibrium.describeDoubleNull"],
                          bounds="real descriptors with symbolic sizes", max_paths=400))


def _isolation(site):
    def body(env):
        import harness.c13 as m   # resolved at call time
        return m._mk_isolation(site)(env)
    return body


for _site in ("distributePointsNonorthogonal", "addPointAtWallToContours"):
    OBLIGATIONS.append(Ob("refined_contours_survive_process_isolation_" + _site, _isolation(_site), tier="quick", family="refinement",
                          desc="the refined (on-surface) contours produced by tasks in worker processes are the ones MeshRegion.%s keeps (shared with C13)" % _site,
                          encodes=["hypnotoad.core.mesh:MeshRegion." + _site], bounds="2 contours of 4 points; wall at lower/upper/both ends", max_paths=400))
OBLIGATIONS.append(Ob("refined_contours_are_kept", _parallel_results_used, tier="quick", family="refinement",
                      desc="the contours returned by the (possibly multi-process) refinement/regridding maps are the ones the region keeps: no parallel_map result is discarded "
                           "(shared with C13)", encodes=["hypnotoad.core.mesh:MeshRegion.distributePointsNonorthogonal", "hypnotoad.core.mesh:MeshRegion.__init__"],
                      bounds="structural (AST of the current source)"))
