"""C04 - orthogonal grids follow grad(psi): the mechanism is (1) all points of one poloidal index come from ONE followPerpendicular call started at
the skeleton point and are stored at the radial index of their psi (shared with C01), (2) the integrated vector field f_R, f_Z is
grad(psi)/|grad(psi)|^2 (so dpsi is the integration variable), (3) when the radial displacement is parallel to grad(psi) the measured
non-orthogonality vanishes (real calcBeta: sinBeta = 0, cosBeta = +-1) and g12 = g13 = g_12 = 0 in the orthogonal metric branch."""
import types

import numpy
import z3

from symx import core
from symx.runner import registry, Ob
from harness.common import sym_numpy, stub_region, MultiLocationArray
import harness.c01 as c01
import harness.c02 as c02
import harness.c18 as c18

OBLIGATIONS, obligation = registry()

META = {
    "explanation": "Shared obligations of C01 (followPerpendicular ordering, contour assembly), C18 (f_R, f_Z = grad psi/|grad psi|^2) and C02 (orthogonal metric has no off-diagonal "
                   "x-y terms) plus: real calcBeta on a stencil whose radial displacement is parallel to grad(psi) gives sinBeta = 0.",
    "bounds": "as in C01/C02/C18; calcBeta stencil: 1x1 region, displacement = lambda * grad(psi) with lambda != 0 of either sign",
    "out": "'to the tolerance of the perpendicular-following integration' (solve_ivp accuracy), the second-order remainder in the radial spacing, cells touching an X-point",
    "assumptions": ["solve_ivp flow contract", "locally linear psi over one cell for the calcBeta obligation"],
}


def ob_parallel_displacement(env):
    """delta_x parallel to grad(psi)  =>  sinBeta = 0, cosBeta^2 = 1 (real calcBeta)"""
    with sym_numpy(env):
        r = stub_region(1, 1, False)
        r.bpsign = 1.0 if env.choose(2) == 0 else -1.0
        gR, gZ = env.real("gradpsi_R"), env.real("gradpsi_Z")
        env.assume(gR * gR + gZ * gZ > 0, "grad psi != 0")
        lam = env.real("lambda")
        env.assume((lam > 0) | (lam < 0), "non-zero radial step")
        x0R, x0Z = env.real("x0R", lo=1, hi=9), env.real("x0Z", lo=-9, hi=9)
        r.Rxy, r.Zxy = MultiLocationArray(1, 1), MultiLocationArray(1, 1)
        r.Rxy.xlow[0, 0], r.Zxy.xlow[0, 0] = x0R, x0Z
        r.Rxy.xlow[1, 0], r.Zxy.xlow[1, 0] = x0R + lam * gR, x0Z + lam * gZ
        for j in range(2):
            r.Rxy.corners[0, j], r.Zxy.corners[0, j] = x0R, x0Z
            r.Rxy.corners[1, j], r.Zxy.corners[1, j] = x0R + lam * gR, x0Z + lam * gZ
        r.Rxy.centre[0, 0] = x0R
        r.Zxy.centre[0, 0] = x0Z
        r.Rxy.ylow[0, :] = x0R
        r.Zxy.ylow[0, :] = x0Z
        g2 = gR * gR + gZ * gZ

        def f(which):
            def fn(Rarr, Zarr):
                out = numpy.empty(numpy.shape(Rarr), dtype=object if env.mode == "sym" else float)
                out[...] = (gR if which == 0 else gZ) / g2
                return out
            return fn
        r.meshParent = types.SimpleNamespace(equilibrium=types.SimpleNamespace(f_R=f(0), f_Z=f(1)))
        r.calcBeta()
    env.witness("calcBeta_returned")
    for loc in ("centre", "ylow"):
        sb, cb = getattr(r.sinBeta, loc)[0, 0], getattr(r.cosBeta, loc)[0, 0]
        env.claim_eq("sinBeta=0@" + loc, sb, 0)
        env.claim_eq("cosBeta^2=1@" + loc, cb * cb, 1)
        env.claim("sign(cosBeta)=sign(radial step along grad psi)@" + loc, cb * lam > 0)
        env.claim_eq("tanBeta=0@" + loc, getattr(r.tanBeta, loc)[0, 0], 0)


OBLIGATIONS.append(Ob("displacement_parallel_to_gradpsi_has_zero_beta", ob_parallel_displacement, tier="quick", family="calcBeta",
                      encodes=["hypnotoad.core.mesh:MeshRegion.calcBeta"], desc="radial displacement parallel to grad(psi) => sinBeta=0, cosBeta=+-1, tanBeta=0",
                      stubs=["f_R, f_Z = grad psi/|grad psi|^2 (symbolic gradient)"], bounds="1x1 stencil; gradient and step symbolic"))
for _n in (3, 4):
    for _inc in (True, False):
        OBLIGATIONS.append(Ob("followPerpendicular_order_n%d_%s" % (_n, "inc" if _inc else "dec"), c01._mk_follow(_n, _inc), tier="quick", family="followPerpendicular",
                              encodes=["hypnotoad.core.mesh:followPerpendicular"],
                              desc="all points of one call lie on one integral curve: result[k] = Phi(psivals[k]) of the same flow from the same start point",
                              stubs=["solve_ivp -> flow contract"], bounds="%d psivals" % _n))
for _in in (True, False):
    OBLIGATIONS.append(Ob("contour_assembly_%s_separatrix" % ("inside" if _in else "outside"), c01._mk_assembly(_in), tier="quick", family="MeshRegion.__init__",
                          encodes=["hypnotoad.core.mesh:MeshRegion.__init__"],
                          desc="the points sharing poloidal index m on successive surfaces all come from the single followPerpendicular call started at skeleton point m",
                          stubs=["followPerpendicular -> tagged points"], bounds="3x3"))
def _field_in_workers(env):
    import harness.c13 as m   # resolved at call time
    return m._mk(2, 1, may_fail=False)(env)


OBLIGATIONS.append(Ob("integrated_field_in_worker_processes", _field_in_workers, tier="quick", family="closures",
                      desc="followPerpendicular tasks run through the real ParallelMap (serial path and 2 model worker processes, every schedule) receive the "
                           "equilibrium's own f_R and f_Z in their roles (shared with C13)",
                      encodes=["hypnotoad.utils.parallel_map:ParallelMap.worker_run", "hypnotoad.utils.parallel_map:ParallelMap.__call__"],
                      stubs=["multiprocessing -> FIFO/baton model"], bounds="2 workers, 1 task, all interleavings", max_paths=20000))
OBLIGATIONS.append(Ob("integrated_field_evaluated_at_the_current_point", c18.ob_closure_arguments, tier="quick", family="closures",
                      encodes=["hypnotoad.core.equilibrium:Equilibrium.magneticFunctionsFromGrid"],
                      desc="f_R, f_Z evaluate the interpolant at the point handed to them (clip to the grid box is the identity inside the box)",
                      stubs=["RectBivariateSpline -> table, arguments recorded", "numpy.clip -> scalar clip"], bounds="grid extent and point symbolic, point inside the box"))
OBLIGATIONS.append(Ob("integrated_field_is_gradpsi_over_gradpsi_squared", c18.ob_closures, tier="quick", family="closures",
                      encodes=["hypnotoad.core.equilibrium:Equilibrium.magneticFunctionsFromGrid"], desc="f_R, f_Z = grad(psi)/|grad(psi)|^2, so psi is the integration variable",
                      stubs=["RectBivariateSpline -> table"], bounds="point inside the box"))
for _bs in (1.0, -1.0):
    OBLIGATIONS.append(Ob("orthogonal_metric_offdiagonals_vanish_bpsign%+d" % int(_bs), c02._mk_reference(True, _bs, 1.0), tier="quick", family="calcMetric",
                          encodes=["hypnotoad.core.mesh:MeshRegion.calcMetric"], desc="orthogonal branch: g12 = g13 = g_12 = 0 (and the other closed forms)",
                          stubs=["DDX -> 0"], bounds="all reals"))
