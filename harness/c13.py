"""C13 - parallel execution == serial execution: the real ParallelMap (__init__, worker_run, __call__, __del__) is run
on a deterministic model of multiprocessing (FIFO queues, processes as baton-passing threads).  Every queue
operation is a scheduling point; the scheduler's choices are explorer decisions (env.choose), so the schedule is
explored exhaustively within the bounds exactly like a symbolic input."""
import os
import subprocess
import sys
import threading
import types

from symx import core
from symx.npproxy import patched
from symx.runner import registry, Ob

import hypnotoad.utils.parallel_map as pm

OBLIGATIONS, obligation = registry()

META = {
    "explanation": "Real ParallelMap code on model queues/processes; all interleavings of queue operations (main + workers) are enumerated "
                   "through the path explorer (scheduler decisions are explorer choices); task functions are uninterpreted tags F(arg).",
    "bounds": "workers 2..3, tasks 1..3 (quick) / up to 4 tasks (thorough); at most one failing task, at every position; "
              "scheduling points = queue put/get; queues are reliable FIFOs",
    "out": "value-for-value identity of whole grids (follows only if tasks are pure functions of their pickled arguments); OS-level failures "
           "(killed worker), pickling failures, multiprocessing.Queue.empty() races",
    "assumptions": ["multiprocessing.Queue = reliable FIFO with blocking get; Process = thread that runs only when scheduled",
                    "dill.dumps/loads = identity", "tasks are pure"],
}


class Deadlock(Exception):
    pass


class _Kill(BaseException):
    pass


class Sched:
    def __init__(self, env):
        self.env = env
        self.threads = []
        self.main = self._T("main")
        self.main.state = "run"
        self.threads.append(self.main)
        self.deadlock = False
        self.killing = False
        self.fixed = False  # True: deterministic schedule (first runnable thread) instead of explorer choices
        self.trace = []
        self.main_ident = threading.get_ident()

    class _T:
        def __init__(self, name):
            self.name = name
            self.sem = threading.Semaphore(0)
            self.state = "new"
            self.waitq = None
            self.thread = None

    def me(self):
        tid = threading.get_ident()
        if tid == self.main_ident:
            return self.main
        for t in self.threads:
            if t.thread is not None and t.thread.ident == tid:
                return t
        raise RuntimeError("unknown thread")

    def runnable(self):
        return [t for t in self.threads if t.state == "run" or (t.state == "blocked" and t.waitq.items)]

    def switch(self, me):
        """scheduling point: hand the baton to a runnable thread chosen by the explorer"""
        while True:
            run = self.runnable()
            if not run:
                # nobody can make progress
                self.deadlock = True
                if me is self.main:
                    raise Deadlock("main blocked on %s, no runnable worker" % (me.waitq.name if me.waitq else "?"))
                self.main.sem.release()
                me.sem.acquire()
                if self.killing:
                    raise _Kill()
                continue
            k = 0 if self.fixed else self.env.choose(len(run))
            nxt = run[k]
            self.trace.append(nxt.name)
            if nxt is me:
                return
            nxt.sem.release()
            me.sem.acquire()
            if self.killing and me is not self.main:
                raise _Kill()
            if self.deadlock and me is self.main:
                raise Deadlock("main blocked, no runnable worker")
            return

    def shutdown(self):
        self.killing = True
        for t in self.threads:
            if t is not self.main and t.thread is not None and t.thread.is_alive():
                t.sem.release()
                t.thread.join(5)


class MQueue:
    def __init__(self, sched, name):
        self.s = sched
        self.items = []
        self.name = name

    def put(self, x):
        # scheduling point *before* the operation (as for get): the order of two puts/gets on one queue is what matters
        me = self.s.me()
        self.s.switch(me)
        self.items.append(x)

    def get(self):
        me = self.s.me()
        me.state = "blocked"
        me.waitq = self
        self.s.switch(me)
        # we hold the baton and the queue is non-empty
        me.state = "run"
        me.waitq = None
        return self.items.pop(0)

    def empty(self):
        return not self.items


class MProcess:
    def __init__(self, sched, target, args):
        self.s = sched
        self.t = Sched._T("w%d" % (len(sched.threads)))
        self.target, self.args = target, args
        sched.threads.append(self.t)

    def start(self):
        def run():
            self.t.sem.acquire()
            try:
                if self.s.killing:
                    return
                self.target(*self.args)
            except _Kill:
                pass
            except BaseException as e:  # noqa  a task raised: the worker process dies
                self.s.trace.append("%s died: %r" % (self.t.name, e))
            self.t.state = "dead"
            if not self.s.killing:
                # pass the baton on
                try:
                    self._handoff()
                except _Kill:
                    pass

        self.t.thread = threading.Thread(target=run, daemon=True)
        self.t.thread.start()
        self.t.state = "run"

    def _handoff(self):
        run = self.s.runnable()
        if not run:
            self.s.deadlock = True
            self.s.main.sem.release()
            return
        k = 0 if self.s.fixed else self.s.env.choose(len(run))
        self.s.trace.append(run[k].name)
        run[k].sem.release()

    def terminate(self):
        pass

    def join(self):
        pass


def make_mp(sched):
    qn = [0]

    def Queue():
        qn[0] += 1
        return MQueue(sched, "task_queue" if qn[0] == 1 else "result_queue")

    return types.SimpleNamespace(Queue=Queue, Process=lambda target, args: MProcess(sched, target, args))


def make_task(fail_at, fail_at2=-1):
    def task(i, arg, *, equilibrium, psi, f_R, f_Z, **kw):
        # fail_at (and fail_at2) are symbolic integers: the solver decides which tasks (if any) fail on this path; only the first map call fails
        if kw.get("extra") == "call0" and (i == fail_at or i == fail_at2):
            raise RuntimeError("task %d failed" % i)
        # the equilibrium functions every task receives are part of the result: serial and parallel must hand over the same ones
        return ("F", i, arg, kw.get("extra"), psi, f_R, f_Z, type(equilibrium).__name__)
    return task


class _Eq:
    psi = "psi"
    f_R = "f_R"
    f_Z = "f_Z"


def _mk(nworkers, ntasks, ncalls=1, may_fail=True, fix_later_calls=False, nfail=1):
    def body(env):
        # position of the failing task: -1 = none.  Symbolic; resolved by the solver where the task code compares with it.
        fail_at = env.int("fail_at", lo=-1, hi=ntasks - 1) if may_fail else -1
        sched = Sched(env)
        mp = make_mp(sched)
        dill = types.SimpleNamespace(dumps=lambda x: x, loads=lambda x: x)
        fail_at2 = env.int("fail_at2", lo=-1, hi=ntasks - 1) if nfail > 1 else -1
        task = make_task(fail_at, fail_at2)
        args = [(i, "a%d" % i) for i in range(ntasks)]
        # serial reference (np == 1 path of the same class), one entry per call
        serial = pm.ParallelMap(1, equilibrium=_Eq())
        expected = []
        for call in range(ncalls):
            try:
                expected.append(("returned", serial(task, args, extra="call%d" % call)))
            except RuntimeError as e:
                expected.append(("raised", repr(e)))
        outcomes = []
        with patched((pm, "multiprocessing", mp), (pm, "dill", dill)):
            P = pm.ParallelMap(nworkers, equilibrium=_Eq())
            try:
                for call in range(ncalls):
                    if call > 0 and fix_later_calls:
                        sched.fixed = True
                    try:
                        outcomes.append(("returned", P(task, args, extra="call%d" % call)))
                    except Deadlock as e:
                        outcomes.append(("deadlock", str(e)))
                        break
                    except Exception as e:  # noqa
                        outcomes.append(("raised", repr(e)))
            finally:
                sched.shutdown()
                P.workers = None  # __del__ must not touch the model afterwards
        env.tag("/".join("%s(serial %s)" % (o[0], x[0]) for o, x in zip(outcomes, expected)))
        for x in expected:
            if x[0] == "returned":
                env.claim("tasks_receive_the_equilibrium's_own_psi_f_R_f_Z", all(r[4:] == ("psi", "f_R", "f_Z", "_Eq") for r in x[1]))
        for call, (o, x) in enumerate(zip(outcomes, expected)):
            c = "" if ncalls == 1 else "call%d:" % call
            env.claim(c + "never_blocks_forever", o[0] != "deadlock")
            if x[0] == "returned":
                env.claim(c + "no_spurious_error", o[0] != "raised")
                env.claim(c + "results_equal_serial_in_order", o[0] != "returned" or o[1] == x[1])
            else:
                env.claim(c + "failing_task_raises_in_caller", o[0] != "returned")
                env.claim(c + "raises_same_error_as_serial", o[0] != "raised" or o[1] == x[1])
        return outcomes, sched.trace[:40]
    return body


def _mk_reassembly(ntasks):
    """__call__ alone: the results arrive in an arbitrary order = a symbolic permutation (z3 Ints, Distinct); the index used
    to store each result is symbolic and is resolved by the solver."""
    def body(env):
        import z3
        perm = [env.int("arrival%d" % k, lo=0, hi=ntasks - 1) for k in range(ntasks)]
        if env.mode == "sym":
            env.add(z3.Distinct(*[core.lift_int(x) for x in perm]))
        else:
            env.assume(len(set(perm)) == ntasks, "permutation")
        P = pm.ParallelMap(1, equilibrium=_Eq())
        sent = []
        got = iter(range(ntasks))

        class TQ:
            def put(self, x):
                sent.append(x)

            def empty(self):
                return True

        class RQ:
            def get(self):
                k = next(got)
                return (perm[k], ("F", perm[k]))

            def empty(self):
                return True

        P.workers = ["model"]
        P.task_queue, P.result_queue = TQ(), RQ()
        try:
            res = P(lambda *a, **k: None, [(i,) for i in range(ntasks)])
        finally:
            P.workers = None
        env.witness("returned")
        env.claim("all_tasks_submitted_with_their_index", [x[0] for x in sent] == list(range(ntasks)))
        for k in range(ntasks):
            tag, idx = res[k]
            env.claim("result[%d]_is_F(%d)" % (k, k), (idx == k) if not isinstance(idx, int) else idx == k)
    return body


def ob_results_are_used(env):
    """tasks run in other processes on pickled copies: a caller can only see what a task RETURNS.  Every call of a parallel map in the grid code must
    therefore use the returned list (structural, on the AST of the current source): no call whose value is discarded, and the contour-valued ones are
    assigned back to self.contours"""
    import ast
    import inspect
    import hypnotoad.core.mesh as meshm
    import hypnotoad.core.equilibrium as eqm_
    calls, discarded, assigned_to = [], [], []
    for mod in (meshm, eqm_):
        tree = ast.parse(inspect.getsource(mod))
        parents = {}
        for node in ast.walk(tree):
            for ch in ast.iter_child_nodes(node):
                parents[ch] = node
        for node in ast.walk(tree):
            if isinstance(node, ast.Call) and isinstance(node.func, ast.Attribute) and node.func.attr == "parallel_map":
                calls.append((mod.__name__, node.lineno))
                par = parents.get(node)
                if isinstance(par, ast.Expr):
                    discarded.append((mod.__name__, node.lineno, ast.unparse(node.args[0]) if node.args else "?"))
                elif isinstance(par, ast.Assign):
                    assigned_to.append((ast.unparse(par.targets[0]), ast.unparse(node.args[0]) if node.args else "?"))
    env.witness("call_sites_found")
    env.claim("parallel_map_call_sites_exist", len(calls) >= 5)
    env.claim("no_parallel_map_result_is_discarded", discarded == [])
    contour_tasks = ("PsiContour.refine", "_refine_extend", "regrid_contours", "_calc_contour_distance")
    for target, task in assigned_to:
        if task in contour_tasks:
            env.claim("contour_valued_map_assigned_back_to_self.contours:" + task, target == "self.contours")


# ---- call sites under process isolation -----------------------------------------------------------------------------------------------------
def _mk_isolation(site):
    """A task that runs in a worker process works on pickled COPIES of its arguments and only its return value comes back.  The real method that
    contains the call site is run twice on the same stub contours: with a serial map, and with a map that copies arguments and results (the
    isolation a process boundary gives).  The state the method leaves behind must be the same."""
    def body(env):
        import copy
        import hypnotoad.core.mesh as mesh_mod
        import hypnotoad.core.equilibrium as eqm
        from hypnotoad.core.equilibrium import Point2D
        from harness.common import stub_region
        sym = env.mode == "sym"
        n = 4

        class SC(eqm.PsiContour):
            """contour whose expensive operations are replaced by cheap, STATE-CHANGING stand-ins (so that losing a change is visible)"""
            def getRefined(self, **kw):
                new = copy.copy(self)
                new.points = [Point2D(q.R, q.Z + 0.25) for q in self.points]
                new._distance = ("distance_after_refine", len(self.points))
                return new

            def contourSfunc(self, psi=None):
                k = 10.0 * len(self.points)
                return lambda i: k + i

            def totalDistance(self, psi=None):
                return 100.0 * len(self.points) + self.startInd

            def get_distance(self, psi=None):
                self._distance = ("distance", tuple((q.R, q.Z) for q in self.points))
                return self._distance

            def checkFineContourExtend(self, psi=None):
                self._fine_contour = ("fine_contour_extended", len(self.points))

            def regrid(self, npoints, **kw):
                self.points = [Point2D(q.R + 0.5, q.Z) for q in self.points]
                return self

        def mk(k):
            c = SC.__new__(SC)
            c.points = [Point2D(float(j), float(k)) for j in range(n)]
            c._startInd, c._endInd = 0, n - 1
            c._fine_contour, c._distance = None, None
            c._extend_lower = c._extend_upper = 0
            c.psival = 2.0 + k
            c.global_xind = k
            return c

        LW, UW = Point2D(-0.5, 0.0), Point2D(n - 0.5, 0.0)

        def find_intersection(i, contour, *, lower_wall, upper_wall, max_extend, **kw):
            """the contour did not reach the wall: it is extended by one point at each wall end (as the real task does through temporaryExtend)"""
            li = ui = lp = up = None
            if lower_wall:
                contour.points = [Point2D(-1.0, contour.points[0].Z)] + contour.points
                contour._startInd += 1
                if contour._endInd >= 0:
                    contour._endInd += 1
                li, lp = 0, Point2D(LW.R, contour.points[0].Z)
            if upper_wall:
                contour.points = contour.points + [Point2D(float(n), contour.points[-1].Z)]
                ui, up = len(contour.points) - 2, Point2D(UW.R, contour.points[-1].Z)
            return contour, li, lp, ui, up

        def serial_map(fn, args, **kw):
            return [fn(*a, psi=None, equilibrium=None, **kw) for a in args]

        def isolating_map(fn, args, **kw):
            return [copy.deepcopy(fn(*copy.deepcopy(a), psi=None, equilibrium=None, **kw)) for a in args]

        lower_wall, upper_wall = True, True
        if site == "addPointAtWallToContours":
            w = env.choose(3)
            lower_wall, upper_wall = [(True, True), (True, False), (False, True)][w]
            env.tag("lower_wall=%s upper_wall=%s" % (lower_wall, upper_wall))
        dist = {}

        def calc_distance(a, b):
            key = (a.R, a.Z, b.R, b.Z)
            if key not in dist:
                dist[key] = env.real("dist%d" % len(dist), lo=0, hi=1)
            return dist[key]

        def run(pmap):
            r = stub_region(1, 1, site != "distributePointsNonorthogonal")
            r.user_options.wall_point_exclude_radius = 1.0e-3
            r.connections = {"inner": None, "outer": None, "lower": None if lower_wall else 7, "upper": None if upper_wall else 8}
            r.contours = [mk(0), mk(1)]
            r.ny_noguards = 1
            r.equilibriumRegion = types.SimpleNamespace(psi=None, extend_lower=0, extend_upper=0, wallSurfaceAtStart=None, wallSurfaceAtEnd=None,
                                                        nonorthogonal_options=types.SimpleNamespace(nonorthogonal_spacing_method="fixed_poloidal"),
                                                        getSfuncFixedSpacing=lambda *a, **k: (lambda i: i), resetNonorthogonalOptions=lambda s: None)
            r.meshParent = types.SimpleNamespace(equilibrium=types.SimpleNamespace(psi_sep=[1.0]))
            r.sfunc_orthogonal_list = [None, None]
            r.parallel_map = pmap
            import contextlib
            import io
            with patched((mesh_mod, "calc_distance", calc_distance), (mesh_mod, "_find_intersection", find_intersection)), \
                    contextlib.redirect_stdout(io.StringIO()):
                getattr(r, site)()
            state = []
            for c in r.contours:
                state.append(([(q.R, q.Z) for q in c.points], c.startInd, c.endInd, c._distance, c._fine_contour))
            sf = [f(1.0) for f in r.sfunc_orthogonal_list if f is not None]
            return state, sf

        a_state, a_sf = run(serial_map)
        env.witness("serial_run_done")
        b_state, b_sf = run(isolating_map)
        env.witness("isolated_run_done")

        def same(x, y):
            if isinstance(x, (tuple, list)) and isinstance(y, (tuple, list)):
                return len(x) == len(y) and all(same(u, v) for u, v in zip(x, y))
            if core.is_sym(x) or core.is_sym(y):
                return env.identical(x, y)
            return x == y
        for k, (sa, sb) in enumerate(zip(a_state, b_state)):
            env.claim("contour_points_same_as_serial:%d" % k, same(sa[0], sb[0]))
            env.claim("contour_start_and_end_index_same_as_serial:%d" % k, sa[1] == sb[1] and sa[2] == sb[2])
            env.claim("contour_cached_distance_and_fine_contour_same_as_serial:%d" % k, same(sa[3], sb[3]) and same(sa[4], sb[4]))
        env.claim("number_of_contours_same_as_serial", len(a_state) == len(b_state))
        env.claim("orthogonal_spacing_functions_same_as_serial", same(a_sf, b_sf))
    return body


for _site in ("addPointAtWallToContours", "distributePointsNonorthogonal", "calcDistances"):
    OBLIGATIONS.append(Ob("call_site_under_process_isolation_" + _site, _mk_isolation(_site), tier="quick", family="callers",
                          desc="the real MeshRegion.%s leaves the same contours behind with a map that copies arguments and results (process boundary) as with a serial map; "
                               "the tasks' stand-ins change the contour they are given (extension, refinement, cached distance)" % _site,
                          encodes=["hypnotoad.core.mesh:MeshRegion." + _site] + (["hypnotoad.core.mesh:_refine_extend"] if _site.startswith("add") else [])
                          + (["hypnotoad.core.mesh:_calc_contour_distance"] if _site == "calcDistances" else []) + ["hypnotoad.core.equilibrium:PsiContour.refine"],
                          stubs=["contour operations -> cheap state-changing stand-ins", "_find_intersection -> extends the contour by one point per wall end",
                                 "calc_distance -> symbolic reals (every proximity branch)"],
                          bounds="2 contours of 4 points; wall at lower/upper/both ends", max_paths=400))


def real_replay(nworkers, ntasks):
    """replay against real multiprocessing: a raising module-level task; a hang (timeout) reproduces 'blocks forever'"""
    def replay(claim_name, values):
        fail_at = int(values.get("fail_at", -1))
        code = (
            "import sys\n"
            "sys.path.insert(0, %r)\n"
            "from harness.c13_tasks import failing_task\n"
            "from hypnotoad.utils.parallel_map import ParallelMap\n"
            "class E: psi=None; f_R=None; f_Z=None\n"
            "p = ParallelMap(%d, equilibrium=E())\n"
            "try:\n"
            "    r = p(failing_task, [(i, %d) for i in range(%d)])\n"
            "    print('RETURNED', r)\n"
            "except Exception as e:\n"
            "    print('RAISED', repr(e))\n"
            "p.__del__()\n" % (os.path.dirname(os.path.dirname(os.path.abspath(__file__))), nworkers, fail_at, ntasks))
        try:
            out = subprocess.run([sys.executable, "-c", code], capture_output=True, text=True, timeout=20)
            txt = out.stdout + out.stderr[-300:]
            hung = False
        except subprocess.TimeoutExpired as e:
            txt = "TIMEOUT after 20 s (caller blocked); partial output: %r" % ((e.stdout or b"")[-200:],)
            hung = True
            subprocess.run("pkill -f harness.c13_tasks", shell=True)
        info = {"real_multiprocessing": txt[-400:], "fail_at": fail_at, "workers": nworkers, "tasks": ntasks}
        if claim_name.endswith("never_blocks_forever"):
            return hung, info
        if claim_name == "failing_task_raises_in_caller":
            return ("RETURNED" in txt), info
        return None, info
    return replay


ENC = ["hypnotoad.utils.parallel_map:ParallelMap.__init__", "hypnotoad.utils.parallel_map:ParallelMap.worker_run",
       "hypnotoad.utils.parallel_map:ParallelMap.__call__", "hypnotoad.utils.parallel_map:ParallelMap.__del__"]

# (3 workers x 3 tasks was tried: > 430 000 schedules explored in 3400 s without finishing; outside the stated bounds)
for _nw, _nt, _tier in [(2, 1, "quick"), (2, 2, "quick"), (3, 2, "thorough"), (2, 3, "thorough")]:
    OBLIGATIONS.append(Ob("schedules_w%d_t%d" % (_nw, _nt), _mk(_nw, _nt), tier=_tier, family="interleavings x failing position",
                          desc="for every interleaving and every position of a failing task (symbolic, incl. none): result list equals the serial one / "
                               "the caller gets the exception; never blocks, never a spurious error",
                          encodes=ENC, stubs=["multiprocessing -> FIFO/baton model", "dill -> identity"],
                          bounds="%d workers, %d tasks, failing index in -1..%d" % (_nw, _nt, _nt - 1), max_paths=2000000,
                          wall_s=900 if _tier == "quick" else 3400))
# (2 workers x 3 tasks with two failing indices did not finish in 3400 s; one failing index with 3 tasks is schedules_w2_t3)
for _nw, _nt, _tier in [(2, 2, "quick"), (3, 2, "thorough")]:
    OBLIGATIONS.append(Ob("two_failures_w%d_t%d" % (_nw, _nt), _mk(_nw, _nt, nfail=2), tier=_tier, family="interleavings x failing position",
                          desc="up to two failing tasks at symbolic positions: for every interleaving (hence every completion order of the failures) the "
                               "caller gets the exception the serial map raises, i.e. that of the first failing task in task order",
                          encodes=ENC, stubs=["multiprocessing -> FIFO/baton model", "dill -> identity"],
                          bounds="%d workers, %d tasks, two failing indices each in -1..%d" % (_nw, _nt, _nt - 1), max_paths=2000000,
                          wall_s=900 if _tier == "quick" else 3400))
OBLIGATIONS.append(Ob("two_calls_w2_t1", _mk(2, 1, ncalls=2), tier="quick", family="interleavings x failing position",
                      desc="two consecutive map calls on one ParallelMap (leftovers of the first call must not leak into the second)",
                      encodes=ENC, stubs=["multiprocessing -> FIFO/baton model"], bounds="2 workers, 1 task, 2 calls", max_paths=2000000, wall_s=900))
OBLIGATIONS.append(Ob("two_calls_w2_t2_second_call_fixed_schedule", _mk(2, 2, ncalls=2, fix_later_calls=True), tier="quick", family="interleavings x failing position",
                      desc="two consecutive map calls, first call: all interleavings and failing positions; second call: one deterministic schedule",
                      encodes=ENC, stubs=["multiprocessing -> FIFO/baton model"],
                      bounds="2 workers, 2 tasks, 2 calls, failing index in -1..1 (first call only); second call not interleaved exhaustively", max_paths=4000000, wall_s=900))
OBLIGATIONS.append(Ob("two_calls_w2_t2_two_failures_then_fixed_schedule", _mk(2, 2, ncalls=2, fix_later_calls=True, nfail=2), tier="quick", family="interleavings x failing position",
                      desc="as many failing tasks as workers in the first call (symbolic positions), then a second call: the pool must still serve it (no worker lost to a failure)",
                      encodes=ENC, stubs=["multiprocessing -> FIFO/baton model"],
                      bounds="2 workers, 2 tasks, 2 calls, two failing indices each in -1..1 (first call only); second call not interleaved exhaustively", max_paths=4000000, wall_s=900))
OBLIGATIONS.append(Ob("two_calls_w2_t2", _mk(2, 2, ncalls=2), tier="thorough", family="interleavings x failing position",
                      desc="two consecutive map calls, the first with a failing task at a symbolic position: the second call returns its own serial results",
                      encodes=ENC, stubs=["multiprocessing -> FIFO/baton model"],
                      bounds="2 workers, 2 tasks, 2 calls, failing index in -1..1 (first call only)", max_paths=4000000, wall_s=1500))
OBLIGATIONS.append(Ob("parallel_map_results_are_used", ob_results_are_used, tier="quick", family="callers",
                      desc="every parallel_map call in core/mesh.py and core/equilibrium.py uses the returned list; contour-valued maps are assigned back to self.contours "
                           "(a task's in-place changes are lost in a worker process)", encodes=["hypnotoad.core.mesh:MeshRegion.__init__", "hypnotoad.core.mesh:MeshRegion.distributePointsNonorthogonal",
                                                                                                "hypnotoad.core.mesh:MeshRegion.addPointAtWallToContours", "hypnotoad.core.mesh:MeshRegion.calcDistances"],
                      bounds="structural (AST of the current source)"))
for _nt in (2, 3, 4, 5):
    OBLIGATIONS.append(Ob("reassembly_any_arrival_order_t%d" % _nt, _mk_reassembly(_nt), tier="quick" if _nt <= 4 else "thorough",
                          family="reassembly", desc="__call__ stores every result at its own task index for every arrival permutation (symbolic, Distinct)",
                          encodes=["hypnotoad.utils.parallel_map:ParallelMap.__call__"], stubs=["queues -> symbolic arrival order"],
                          bounds="%d tasks" % _nt))
