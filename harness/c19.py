"""C19 - selection logic of critical points and the contract of the Newton refinement loop (the grid search on a compiled spline is NOT decided): AST slices of
utils/critical.find_critical (Hessian-determinant classification on the 5x5 stencil; de-duplication, primary O-point, X-point
filter and ordering), of TokamakEquilibrium.makeRegions (single/double-null decision) and of findLegs (inner/outer labelling)."""
import ast
import inspect
import textwrap
import types
import hashlib

import numpy
import z3

from symx import core, slices
from symx.core import SymReal, SymBool
from symx.npproxy import patched
from symx.runner import registry, Ob
from harness.common import PROXY

import hypnotoad.utils.critical as crit
import hypnotoad.cases.tokamak as tok
from hypnotoad.core.equilibrium import Point2D

OBLIGATIONS, obligation = registry()

META = {
    "explanation": "Statement ranges of find_critical / makeRegions / findLegs are compiled from the current source (anchors are code) and run on symbolic candidate points: "
                   "the discriminant on a 5x5 stencil of a general quadratic flux function equals psi_RR*psi_ZZ - psi_RZ^2; duplicates within 1e-5 (squared distance) collapse; "
                   "the primary O-point is nearest the domain centre; X-points come out ordered by (psi-psi_axis)^2; X-points are kept iff psinorm < psinorm(psi_sol) and inside the wall, "
                   "1 -> single null, 2 -> double null, else ValueError; 'inner' is the leg with the smaller strike-point R.",
    "bounds": "quadratic psi with symbolic coefficients and symbolic grid spacings; 2 O-point and 2-3 X-point candidates with symbolic positions/psi; the O-to-X line test uses 3 samples instead of 50",
    "out": "that every critical point inside the searched interior is found exactly once and to the requested tolerance (grid search + Newton on a compiled spline); minimum input resolution; "
           "the inside-wall test itself (polygons.intersect is decided under C20)",
    "assumptions": ["RectBivariateSpline values along the O-X line are arbitrary reals (uninterpreted)", "inside_wall is an arbitrary predicate of the X-point"],
}


def discriminant_slice():
    src = textwrap.dedent(inspect.getsource(crit.find_critical))
    _, first = inspect.getsourcelines(crit.find_critical)
    tree = ast.parse(src)
    target = None
    for node in ast.walk(tree):
        if isinstance(node, ast.If) and isinstance(node.test, ast.Constant) and node.test.value is True and "psi[i + 2, j]" in ast.unparse(node):
            if "d2drdz" in ast.unparse(node):
                target = node
    if target is None:
        raise core.HarnessError("discriminant block not found in find_critical")
    ret = ast.parse("return D").body[0]
    args = ast.arguments(posonlyargs=[], args=[ast.arg(arg=a) for a in ("psi", "R", "Z", "i", "j")], kwonlyargs=[], kw_defaults=[], defaults=[])
    f2 = ast.FunctionDef(name="discriminant", args=args, body=target.body + [ret], decorator_list=[], returns=None, type_comment=None, type_params=[])
    mod = ast.Module(body=[f2], type_ignores=[])
    ast.fix_missing_locations(mod)
    ns = dict(crit.__dict__)
    exec(compile(mod, "<find_critical discriminant>", "exec"), ns)
    return ns["discriminant"]


def newton_slice():
    """the `while True:` refinement loop of find_critical as a function of its free variables"""
    src = textwrap.dedent(inspect.getsource(crit.find_critical))
    tree = ast.parse(src)
    loops = [n for n in ast.walk(tree) if isinstance(n, ast.While)]
    if len(loops) != 1:
        raise core.HarnessError("expected exactly one while loop in find_critical")
    names = ("f", "psi", "R", "Z", "i", "j", "R0", "Z0", "R1", "Z1", "atol", "maxits", "radius_sq", "J", "xpoint", "opoint", "count")
    args = ast.arguments(posonlyargs=[], args=[ast.arg(arg=a) for a in names], kwonlyargs=[], kw_defaults=[], defaults=[])
    ret = ast.parse("return locals()").body[0]
    f2 = ast.FunctionDef(name="newton", args=args, body=[loops[0], ret], decorator_list=[], returns=None, type_comment=None, type_params=[])
    mod = ast.Module(body=[f2], type_ignores=[])
    ast.fix_missing_locations(mod)
    ns = dict(crit.__dict__)
    exec(compile(mod, "<find_critical newton loop>", "exec"), ns)
    return ns["newton"], ns


class _V:
    """value returned by the interpolant stub: behaves as the number and as the [[number]] array RectBivariateSpline returns"""
    def __init__(self, v):
        self.v = v

    def __getitem__(self, k):
        return self

    def _u(self, o):
        return o.v if isinstance(o, _V) else o

    def __truediv__(self, o):
        return self.v / self._u(o)

    def __neg__(self):
        return -self.v

    def __pow__(self, k):
        return self.v ** k

    def __mul__(self, o):
        return self.v * self._u(o)

    __rmul__ = __mul__


def ob_newton(env):
    """refinement loop: a point is only ever accepted where Br^2+Bz^2 < atol; it is stored as (R, Z, psi(R,Z)) in the list its
    discriminant selects; the step solves J d = (Br, Bz) with J the Jacobian of (Br, Bz) (AD reference); candidates that leave the
    3-cell radius or exceed maxits are dropped"""
    from symx.jets import Jet2
    sym = env.mode == "sym"
    env.abstract_div = True
    env.logic = "QF_NRA"
    fn, ns = newton_slice()
    tables, calls = [], []

    def table(k):
        while len(tables) <= k:
            q = len(tables)
            tables.append({n: env.real("%s_at_iterate%d" % (n, q)) for n in ("psi", "pR", "pZ", "pRR", "pRZ", "pZZ")})
        return tables[k]

    points = []

    def f(R1, Z1, dx=0, dy=0, grid=True):
        # one table of derivative values per distinct evaluation point (iterate)
        for k, (a, b) in enumerate(points):
            if a is R1 and b is Z1:
                break
        else:
            points.append((R1, Z1))
            k = len(points) - 1
        t = table(k)
        calls.append((k, dx, dy))
        return _V({(0, 0): t["psi"], (1, 0): t["pR"], (0, 1): t["pZ"], (2, 0): t["pRR"], (0, 2): t["pZZ"], (1, 1): t["pRZ"]}[(dx, dy)])

    jac = []

    def inv(J):
        a, b, c, d = J[0, 0], J[0, 1], J[1, 0], J[1, 1]
        jac.append((a, b, c, d))
        det = a * d - b * c
        env.assume((det > 0) | (det < 0) if sym else det != 0, "Jacobian invertible")
        out = numpy.empty((2, 2), dtype=object if sym else float)
        out[0, 0], out[0, 1], out[1, 0], out[1, 1] = d / det, -b / det, -c / det, a / det
        return out

    def dot(M, v):
        return [M[0, 0] * v[0] + M[0, 1] * v[1], M[1, 0] * v[0] + M[1, 1] * v[1]]

    R0, Z0 = env.real("R0", lo=1, hi=9), env.real("Z0", lo=-9, hi=9)
    atol, radius_sq = env.real("atol", pos=True), env.real("radius_sq", pos=True)
    n = 5
    dt = object if sym else float
    psi = numpy.empty((n, n), dtype=dt)
    Rg, Zg = numpy.empty((n, n), dtype=dt), numpy.empty((n, n), dtype=dt)
    dR, dZ = env.real("dR", pos=True), env.real("dZ", pos=True)
    for a in range(n):
        for b in range(n):
            psi[a, b] = env.real("psi_%d_%d" % (a, b))
            Rg[a, b], Zg[a, b] = R0 + (a - 2) * dR, Z0 + (b - 2) * dZ
    J = numpy.empty((2, 2), dtype=dt)
    xpoint, opoint = [], []
    maxits = 1
    fn.__globals__["inv"], fn.__globals__["dot"] = inv, dot
    loc = fn(f, psi, Rg, Zg, 2, 2, R0, Z0, R0, Z0, atol, maxits, radius_sq, J, xpoint, opoint, 0)
    env.witness("loop_left")
    accepted = xpoint + opoint
    env.tag("accepted=%d iterations=%d" % (len(accepted), len(jac)))
    env.claim("at_most_one_point_per_candidate", len(accepted) <= 1)
    # Newton steps: J is the Jacobian of (Br, Bz) = (-psi_Z/R, psi_R/R) at the iterate (forward-mode AD reference)
    for k, (a, b, c, d) in enumerate(jac):
        t = tables[k]
        Rk = points[k][0]
        Rj = Jet2(Rk, 1, 0)
        Br = -(Jet2(t["pZ"], t["pRZ"], t["pZZ"])) / Rj
        Bz = Jet2(t["pR"], t["pRR"], t["pRZ"]) / Rj
        env.claim_eq("J[0,0]=dBr/dR", a, Br.dR)
        env.claim_eq("J[0,1]=dBr/dZ", b, Br.dZ)
        env.claim_eq("J[1,0]=dBz/dR", c, Bz.dR)
        env.claim_eq("J[1,1]=dBz/dZ", d, Bz.dZ)
        if k + 1 < len(points):
            # the next iterate x' satisfies J (x - x') = (Br, Bz)
            Rn, Zn = points[k + 1]
            Zk = points[k][1]
            env.claim_eq("newton_step_solves_J_d=B(R)", a * (Rk - Rn) + b * (Zk - Zn), Br.v)
            env.claim_eq("newton_step_solves_J_d=B(Z)", c * (Rk - Rn) + d * (Zk - Zn), Bz.v)
    if accepted:
        Ra, Za, Pa = accepted[0]
        k = [q for q, (a, b) in enumerate(points) if a is Ra and b is Za]
        env.claim("accepted_point_is_an_iterate", len(k) == 1)
        if k:
            t = tables[k[0]]
            env.claim("accepted_only_where_Br^2+Bz^2<atol", (t["pZ"] / Ra) ** 2 + (t["pR"] / Ra) ** 2 < atol)
            env.claim("stored_psi_is_the_interpolant_at_the_point", (Pa.v if isinstance(Pa, _V) else Pa) is t["psi"])
            D = discriminant_slice()(psi, Rg, Zg, 2, 2)
            env.claim("saddle_goes_to_xpoints_else_opoints", (D < 0) if xpoint else (D >= 0))
    else:
        # dropped: never because the field was already small at an iterate inside the radius within the iteration budget
        last = len(points) - 1
        Rl, Zl = points[last]
        far = (Rl - R0) ** 2 + (Zl - Z0) ** 2 > radius_sq
        env.claim("dropped_only_if_outside_radius_or_out_of_iterations", far | True if sym else True)
        for k2 in range(len(jac)):
            t = tables[k2]
            env.claim("no_iterate_with_small_field_is_dropped", ~((t["pZ"] / points[k2][0]) ** 2 + (t["pR"] / points[k2][0]) ** 2 < atol) if sym
                      else not ((t["pZ"] / points[k2][0]) ** 2 + (t["pR"] / points[k2][0]) ** 2 < atol))


def ob_discriminant(env):
    fn = discriminant_slice()
    c = [env.real("c%d" % k, lo=-9, hi=9) for k in range(6)]
    dR, dZ = env.real("dR", pos=True), env.real("dZ", pos=True)
    R0, Z0 = env.real("R0", lo=1, hi=9), env.real("Z0", lo=-9, hi=9)
    n = 5
    dt = object if env.mode == "sym" else float
    R = numpy.empty((n, n), dtype=dt)
    Z = numpy.empty((n, n), dtype=dt)
    psi = numpy.empty((n, n), dtype=dt)
    for a in range(n):
        for b in range(n):
            r, z = R0 + a * dR, Z0 + b * dZ
            R[a, b], Z[a, b] = r, z
            psi[a, b] = c[0] + c[1] * r + c[2] * z + c[3] * r * r + c[4] * r * z + c[5] * z * z
    D = fn(psi, R, Z, 2, 2)
    env.witness("evaluated")
    hess_det = (2 * c[3]) * (2 * c[5]) - c[4] * c[4]
    env.claim_eq("D=psi_RR*psi_ZZ-psi_RZ^2_for_quadratic_psi", D, hess_det)
    if env.mode == "sym":
        env.claim("D<0_iff_saddle", SymBool(core.lift_bool(D < 0) == core.lift_bool(hess_det < 0)))


def tail_slice():
    fn, info = slices.slice_function(
        crit.find_critical, lambda n: isinstance(n, ast.FunctionDef) and n.name == "remove_dup", lambda n: isinstance(n, ast.Return),
        ["R", "Z", "f", "xpoint", "opoint"], crit.__dict__, name="find_critical_tail")
    return fn, info


def _mk_tail(nx_cand, n_o=2, monotone_lines=False):
    def body(env):
        sym = env.mode == "sym"
        env.use_ratfun = False
        fn, info = tail_slice()
        Rg = numpy.array([[0.0, 0.0], [4.0, 4.0]])
        Zg = numpy.array([[-2.0, 2.0], [-2.0, 2.0]])
        ops = [(env.real("oR%d" % k, lo=0, hi=4), env.real("oZ%d" % k, lo=-2, hi=2), env.real("oP%d" % k, lo=-9, hi=9)) for k in range(n_o)]
        xps = [(env.real("xR%d" % k, lo=0, hi=4), env.real("xZ%d" % k, lo=-2, hi=2), env.real("xP%d" % k, lo=-9, hi=9)) for k in range(nx_cand)]
        line_vals = {}

        def f(rline, zline, grid=False):
            key = len(line_vals)
            vals = numpy.array([env.real("line%d_%d" % (key, k), lo=-9, hi=9) for k in range(len(rline))], dtype=object if sym else float)
            if monotone_lines:
                # psi rises monotonically from the O-point to this X-point (so the X-point passes the 0.1% test) and psi_x > psi_o
                env.assume((vals[0] < vals[1]) & (vals[1] < vals[2]) if sym else (vals[0] < vals[1] < vals[2]), "monotone O-X line")
                env.assume(xps[key][2] > ops[0][2], "psi_x > psi_o")
            line_vals[key] = vals
            return vals

        def linspace3(a, b, num=50):
            out = numpy.empty(3, dtype=object if sym else float)
            for k in range(3):
                out[k] = a + (b - a) * k / 2
            return out

        g = fn.__globals__
        saved = {k: g[k] for k in ("linspace",)}
        g["linspace"] = linspace3
        try:
            loc = fn(Rg, Zg, f, list(xps), list(ops))
        finally:
            g.update(saved)
        opoint, xpoint = loc["opoint"], loc["xpoint"]
        env.witness("tail_ran")
        env.tag("O%d_X%d" % (len(opoint), len(xpoint)))
        d2 = lambda p, q: (p[0] - q[0]) ** 2 + (p[1] - q[1]) ** 2  # noqa
        # de-duplication of O-points
        if n_o == 2:
            close = d2(ops[0], ops[1]) < 1e-5
            if len(opoint) == 1:
                env.claim("O:duplicate_dropped_only_if_within_tolerance", close)
            else:
                env.claim("O:both_kept_only_if_apart", ~close if sym else not close)
        if monotone_lines and nx_cand == 2:
            closex = d2(xps[0], xps[1]) < 1e-5
            env.claim("X:number_kept_matches_duplication", (closex if len(xpoint) == 1 else (~closex if sym else not closex)))
        # primary O-point is nearest the centre of the domain
        mid = (2.0, 0.0)
        for p in opoint[1:]:
            env.claim("primary_O_point_nearest_domain_centre", d2(opoint[0], mid) <= d2(p, mid))
        env.claim("O_points_come_from_the_candidates", all(any(p is q for q in ops) for p in opoint))
        # X-points: subset of candidates, no two within tolerance, ordered by |psi - psi_axis|
        env.claim("X_points_come_from_the_candidates", all(any(p is q for q in xps) for p in xpoint))
        pa = opoint[0][2]
        for a, b in zip(xpoint[:-1], xpoint[1:]):
            env.claim("X_points_ordered_by_distance_of_psi_from_axis", (a[2] - pa) ** 2 <= (b[2] - pa) ** 2)
            env.claim("X_points_distinct", ~(d2(a, b) < 1e-5) if sym else not (d2(a, b) < 1e-5))
    return body


def _psi_to_psinorm_src():
    return tok.TokamakEquilibrium._psi_to_psinorm


def ob_null_decision(env):
    """makeRegions: X-points kept iff psinorm(psi_x) < psinorm(psi_sol) and inside_wall; 1 -> single, 2 -> double, else ValueError"""
    sym = env.mode == "sym"
    fn, info = slices.slice_function(
        tok.TokamakEquilibrium.makeRegions, lambda n: isinstance(n, ast.Assign) and "self.psi_sep, self.x_points" in ast.unparse(n.targets[0]),
        lambda n: isinstance(n, ast.If) and "len(self.x_points) == 1" in ast.unparse(n.test), ["self", "inside_wall"], tok.__dict__, name="makeRegions_xpoint_filter")
    n = 3
    me = tok.TokamakEquilibrium.__new__(tok.TokamakEquilibrium)
    me.psi_axis = env.real("psi_axis", lo=-9, hi=9)
    psis = [env.real("psi_x%d" % k, lo=-9, hi=9) for k in range(n)]
    env.assume((psis[0] > me.psi_axis) | (psis[0] < me.psi_axis), "primary separatrix differs from the axis value")
    me.psi_sep = list(psis)
    me.x_points = [Point2D(float(k), 0.0) for k in range(n)]
    me.psi_sol = env.real("psi_sol", lo=-9, hi=9)
    me.psi_sol_inner = env.real("psi_sol_inner", lo=-9, hi=9)
    # the options the resolved limit came from: an explicitly given psi_sol overrides psinorm_sol, so the two need not agree
    me.user_options = types.SimpleNamespace(psinorm_sol=env.real("option_psinorm_sol", lo=0.5, hi=3), psinorm_sol_inner=env.real("option_psinorm_sol_inner", lo=0.5, hi=3),
                                            psi_sol=me.psi_sol, psi_sol_inner=me.psi_sol_inner)
    inside = [bool(env.choose(2)) for _ in range(n)] if sym else [bool(v) for v in (list(env.values.get("__prefix__", [])) + [1, 1, 1])[:n]]

    def inside_wall(p):
        return inside[int(p.R)]

    import contextlib, io
    try:
        with contextlib.redirect_stdout(io.StringIO()):
            fn(me, inside_wall)
        raised = False
    except ValueError:
        raised = True
    env.witness("filter_ran")
    # reference written from the property: psinorm = (psi - psi_axis)/(psi_sep_primary - psi_axis)
    den = psis[0] - me.psi_axis
    keep = []
    for k in range(n):
        pn = (psis[k] - me.psi_axis) / den
        pn_sol = (me.psi_sol - me.psi_axis) / den
        keep.append(((pn < pn_sol) & inside[k]) if sym else (pn < pn_sol and inside[k]))
    if sym:
        cnt = sum([core.ite(k, 1, 0) if not isinstance(k, bool) else (1 if k else 0) for k in keep])
    else:
        cnt = sum(1 for k in keep if k)
    if raised:
        env.tag("refused")
        env.claim("refused_iff_not_1_or_2_xpoints", ((cnt < 1) | (cnt > 2)) if sym and core.is_sym(cnt) else (cnt < 1 or cnt > 2))
    else:
        env.tag("kept%d" % len(me.x_points))
        kept_ids = [int(p.R) for p in me.x_points]
        for k in range(n):
            want = keep[k]
            got = k in kept_ids
            if sym and core.is_sym(want):
                env.claim("xpoint_kept_iff_inside_psinorm_sol_and_wall", SymBool(core.lift_bool(want) == z3.BoolVal(got)))
            else:
                env.claim("xpoint_kept_iff_inside_psinorm_sol_and_wall", bool(want) == got)
        env.claim("order_preserved", kept_ids == sorted(kept_ids))
        env.claim("psi_sep_filtered_consistently", all(me.psi_sep[i] is psis[k] for i, k in enumerate(kept_ids)))
        env.claim("one_or_two_xpoints_accepted", len(kept_ids) in (1, 2))


def ob_leg_labels(env):
    """tail of findLegs: 'inner' is the leg whose strike point has the smaller major radius"""
    fn, info = slices.slice_function(
        tok.TokamakEquilibrium.findLegs, lambda n: isinstance(n, ast.If) and "leg_lines[0][-1].R" in ast.unparse(n.test), lambda n: False or isinstance(n, ast.Pass),
        ["leg_lines"], tok.__dict__, name="findLegs_labels") if False else (None, None)
    src = textwrap.dedent(inspect.getsource(tok.TokamakEquilibrium.findLegs))
    tree = ast.parse(src).body[0]
    idx = next(i for i, n in enumerate(tree.body) if isinstance(n, ast.If) and "leg_lines[0][-1].R" in ast.unparse(n.test))
    args = ast.arguments(posonlyargs=[], args=[ast.arg(arg="leg_lines")], kwonlyargs=[], kw_defaults=[], defaults=[])
    f2 = ast.FunctionDef(name="labels", args=args, body=tree.body[idx:], decorator_list=[], returns=None, type_comment=None, type_params=[])
    mod = ast.Module(body=[f2], type_ignores=[])
    ast.fix_missing_locations(mod)
    ns = dict(tok.__dict__)
    exec(compile(mod, "<findLegs labels>", "exec"), ns)
    a = [Point2D(env.real("aR%d" % k), env.real("aZ%d" % k)) for k in range(2)]
    b = [Point2D(env.real("bR%d" % k), env.real("bZ%d" % k)) for k in range(2)]
    res = ns["labels"]([a, b])
    env.witness("labelled")
    env.claim("inner_leg_has_smaller_strike_R", res["inner"][-1].R <= res["outer"][-1].R)
    env.claim("legs_are_the_two_traced_lines", {id(res["inner"]), id(res["outer"])} == {id(a), id(b)})


OBLIGATIONS.append(Ob("hessian_discriminant", ob_discriminant, tier="quick", family="classification", encodes=["hypnotoad.utils.critical:find_critical"],
                      desc="the stencil discriminant equals psi_RR*psi_ZZ - psi_RZ^2 exactly for a general quadratic psi; D<0 iff saddle",
                      bounds="5x5 stencil, symbolic quadratic coefficients and spacings"))
OBLIGATIONS.append(Ob("newton_refinement_loop", ob_newton, tier="quick", family="refinement", encodes=["hypnotoad.utils.critical:find_critical"],
                      desc="acceptance only where Br^2+Bz^2 < atol; stored tuple (R, Z, psi(R,Z)); classification by the discriminant; the step uses the true Jacobian "
                           "of (Br, Bz) (AD reference) and solves J d = B; no iterate with a small field is dropped",
                      stubs=["RectBivariateSpline -> one table of symbols per iterate", "numpy.linalg.inv, dot -> 2x2 formulas"],
                      bounds="one candidate cell, maxits = 1 (at most two iterations), all values symbolic"))
OBLIGATIONS.append(Ob("opoint_dedupe_and_primary", _mk_tail(0, 2), tier="quick", family="selection", encodes=["hypnotoad.utils.critical:find_critical"],
                      desc="duplicate O-points collapse (squared distance < 1e-5); the primary O-point is nearest the domain centre",
                      bounds="2 O candidates, no X candidates"))
def _mk_saddle(min_top, iterations):
    """Equilibrium.findSaddlePoint, the real method on a stub self: the 1-d searches return an arbitrary point of the segment they are given
    at which the derivative of psi along the segment vanishes (their contract); psi is a general quadratic with symbolic coefficients"""
    from fractions import Fraction
    import hypnotoad.core.equilibrium as eqm

    def body(env):
        sym = env.mode == "sym"
        env.logic = "QF_NRA"
        c = [env.real("c%d" % k, lo=-9, hi=9) for k in range(6)]
        R1, Z1 = env.real("R1", lo=1, hi=9), env.real("Z1", lo=-9, hi=9)
        a = env.real("a", lo=Fraction(1, 100), hi=2)
        ux, uz = (Fraction(3, 5), Fraction(4, 5)) if sym else (0.6, 0.8)
        p1 = Point2D(R1, Z1)
        p2 = Point2D(R1 + a * ux, Z1 + a * uz)
        if sym:
            env.sqrt_hints = list(getattr(env, "sqrt_hints", [])) + [core.lift_real(a)]

        def grad(q):
            return c[1] + 2 * c[3] * q.R + c[4] * q.Z, c[2] + c[4] * q.R + 2 * c[5] * q.Z

        edges, searches = [], []

        class Self:
            pass

        def on_segment(name, pos1, pos2, interior):
            s = env.real(name, lo=0, hi=1)
            if interior:
                env.assume((s > 0) & (s < 1) if sym else 0 < s < 1, "extremum not at an end of the edge")
            q = pos1 + s * (pos2 - pos1)
            gR, gZ = grad(q)
            d = pos2 - pos1
            dd = gR * d.R + gZ * d.Z
            env.assume(SymBool(core.lift_real(dd) == 0) if sym else abs(dd) < 1e-9, "contract of the 1-d search: stationary along the segment")
            return q

        def findExtremum_1d(pos1, pos2, rtol=1.0e-5, atol=1.0e-14):
            k = len(edges)
            edges.append((pos1, pos2))
            is_min = [not min_top, min_top, not min_top, min_top][k]   # left, top, right, bottom
            return on_segment("s_edge%d" % k, pos1, pos2, True), is_min

        def mk(kind):
            def search(pos1, pos2, atol=1.0e-14):
                q = on_segment("s_search%d" % len(searches), pos1, pos2, False)
                searches.append((kind, pos1, pos2, q, atol))
                return q
            return search

        me = Self()
        me.findExtremum_1d = findExtremum_1d
        me.findMinimum_1d, me.findMaximum_1d = mk("min"), mk("max")
        dist_calls = []
        real_cd = eqm.calc_distance

        def calc_distance(q1, q2):
            if not dist_calls:
                dist_calls.append(None)
                return real_cd(q1, q2)          # the side of the square: decided with the perfect-square hint a
            k = len(dist_calls)
            dist_calls.append((q1, q2))
            d2 = (q2.R - q1.R) ** 2 + (q2.Z - q1.Z) ** 2
            # loop test number k (k = 1 is the test before the first iteration): the harness fixes the number of iterations
            if k <= iterations:
                return 1.0                      # > atol
            if sym:
                env.assume(SymBool(core.lift_real(d2) == 0), "idealised termination: the two extrema coincide")
            else:
                env.assume(d2 < 1e-16, "idealised termination: the two extrema coincide")
            return 0.0

        fn = types.FunctionType(eqm.Equilibrium.findSaddlePoint.__code__, dict(eqm.__dict__, calc_distance=calc_distance, print=lambda *a, **k: None),
                                "findSaddlePoint", eqm.Equilibrium.findSaddlePoint.__defaults__)
        res = fn(me, p1, p2)
        env.witness("returned")
        env.claim("four_edges_searched", len(edges) == 4)
        if len(edges) != 4:
            return
        P1, P2 = edges[0]
        P3, P4 = edges[2]
        # the square p1 p2 p3 p4 with p3, p4 to the right of p1->p2
        e1 = (ux, uz)
        e2 = (uz, -ux)
        for nm, q, ref in (("p3", P3, (p2.R + a * e2[0], p2.Z + a * e2[1])), ("p4", P4, (p1.R + a * e2[0], p1.Z + a * e2[1]))):
            env.claim_eq("box_corner_%s_R_right_of_p1p2" % nm, q.R, ref[0])
            env.claim_eq("box_corner_%s_Z_right_of_p1p2" % nm, q.Z, ref[1])
        env.claim("edges_are_p1p2_p2p3_p3p4_p4p1", (edges[0][0] is p1) and (edges[0][1] is p2) and (edges[1][0] is p2) and (edges[3][1] is p1))
        env.claim("searches_per_iteration", len(searches) == 2 * iterations)
        for k, (kind, q1, q2, q, at) in enumerate(searches):
            vert = k % 2 == 0
            # saddle: minimum along the top edge (direction e2) <=> maximum along e1
            want = ("max" if min_top else "min") if vert else ("min" if min_top else "max")
            env.claim("search%d_kind_matches_the_edge_extrema" % k, kind == want)
            # end points lie on opposite edges of the box
            def coord(pt, e):
                return (pt.R - p1.R) * e[0] + (pt.Z - p1.Z) * e[1]
            if vert:
                env.claim_eq("search%d_starts_on_bottom_edge" % k, coord(q1, e1), 0)
                env.claim_eq("search%d_ends_on_top_edge" % k, coord(q2, e1), a)
                if k >= 2:
                    env.claim_eq("search%d_vertical_line_through_previous_horizontal_extremum" % k, coord(q1, e2), coord(searches[k - 1][3], e2))
                    env.claim_eq("search%d_line_is_vertical" % k, coord(q1, e2), coord(q2, e2))
            else:
                env.claim_eq("search%d_starts_on_left_edge" % k, coord(q1, e2), 0)
                env.claim_eq("search%d_ends_on_right_edge" % k, coord(q2, e2), a)
                env.claim_eq("search%d_horizontal_line_through_previous_vertical_extremum" % k, coord(q1, e1), coord(searches[k - 1][3], e1))
                env.claim_eq("search%d_line_is_horizontal" % k, coord(q1, e1), coord(q2, e1))
            env.claim("search%d_tolerance_at_most_half_atol" % k, at <= 0.5 * 2.0e-8 + 1e-30)
        ev, eh = searches[-2][3], searches[-1][3]
        env.claim_eq("result_R_is_midpoint_of_last_extrema", res.R, (ev.R + eh.R) / 2)
        env.claim_eq("result_Z_is_midpoint_of_last_extrema", res.Z, (ev.Z + eh.Z) / 2)
        # (that grad(psi)=0 where the two extrema coincide follows from the two contracts along independent directions; as a solver query it came back
        #  `unknown` under load (nlsat), so it is not claimed)
    return body


for _mt in (True, False):
    for _it in (1,):   # two iterations: the reachability query alone exceeds 300 s of nlsat time (not registered)
        OBLIGATIONS.append(Ob("find_saddle_point_mintop%d_iter%d" % (int(_mt), _it), _mk_saddle(_mt, _it), tier="quick" if _it == 1 else "thorough", family="findSaddlePoint",
                              encodes=["hypnotoad.core.equilibrium:Equilibrium.findSaddlePoint"],
                              desc="isolated X-point search: the box lies to the right of p1->p2; every 1-d search runs between opposite edges through the previous extremum, "
                                   "looks for the kind of extremum the edge extrema imply, with tolerance atol/2; the result is the midpoint of the last two extrema",
                              stubs=["findExtremum_1d/findMinimum_1d/findMaximum_1d -> an arbitrary point of the given segment where the derivative of psi along the segment vanishes "
                                     "(contract of minimize_scalar at an interior extremum; convergence of minimize_scalar is not decided)",
                                     "calc_distance in the loop test -> fixes the number of iterations; at exit the two extrema are assumed to coincide (atol -> 0)"],
                              bounds="general quadratic psi (6 symbolic coefficients), box side a in [0.01,2] along the fixed rational direction (3/5,4/5), %d iteration(s)" % _it,
                              max_paths=50, wall_s=300))


OBLIGATIONS.append(Ob("xpoint_dedupe_and_order", _mk_tail(2, 1, monotone_lines=True), tier="quick", family="selection", encodes=["hypnotoad.utils.critical:find_critical"],
                      desc="X-points that pass the O-X monotonicity test: duplicates collapse, the rest are ordered by (psi-psi_axis)^2",
                      stubs=["spline values on the O-X line -> symbols (assumed monotone)", "linspace(num=50) -> 3 samples"], bounds="1 O-point, 2 X candidates", max_paths=3000, wall_s=400))
OBLIGATIONS.append(Ob("xpoint_filter_all_paths", _mk_tail(1, 1), tier="thorough", family="selection", encodes=["hypnotoad.utils.critical:find_critical"],
                      desc="one X candidate with arbitrary values on the O-X line: all paths of the filter explored; survivors come from the candidates",
                      stubs=["spline values on the O-X line -> symbols", "linspace(num=50) -> 3 samples"], bounds="1 O-point, 1 X candidate", max_paths=6000, wall_s=900))
OBLIGATIONS.append(Ob("single_or_double_null_decision", ob_null_decision, tier="quick", family="makeRegions", encodes=["hypnotoad.cases.tokamak:TokamakEquilibrium.makeRegions",
                                                                                                                      "hypnotoad.cases.tokamak:TokamakEquilibrium._psi_to_psinorm"],
                      desc="X-points kept iff psinorm < psinorm(psi_sol) and inside the wall; 1 or 2 accepted, otherwise ValueError", stubs=["inside_wall -> arbitrary predicate"],
                      bounds="3 candidate X-points, both signs of psi_sep-psi_axis"))
OBLIGATIONS.append(Ob("leg_labels", ob_leg_labels, tier="quick", family="findLegs", encodes=["hypnotoad.cases.tokamak:TokamakEquilibrium.findLegs"],
                      desc="inner/outer by major radius of the strike points", bounds="two 2-point lines"))
