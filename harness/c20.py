"""C20 - segment/polygon predicates vs exact arithmetic: real find_intersections, wallIntersection,
closest_approach, polygons.area/clockwise/intersect executed on symbolic reals."""
import types

import numpy
import z3

from symx import core
from symx.core import SymReal, SymBool, sand, implies
from symx.runner import registry, Ob
from symx.npproxy import patched
from harness.common import sym_numpy, PROXY

import hypnotoad.core.equilibrium as eqm
import hypnotoad.utils.polygons as polygons
from hypnotoad.core.equilibrium import Point2D

OBLIGATIONS, obligation = registry()

META = {
    "explanation": "Real find_intersections / Equilibrium.wallIntersection / closest_approach / polygons.* are run on symbolic real "
                   "coordinates (numpy object arrays); every path of the slope-class / sorting / range-test logic is explored and z3 "
                   "compares the reported points with the exact parametric solution A+t(B-A)=C+u(D-C).",
    "bounds": "coordinates in [-8,8]; find_intersections: wall of 1 edge x 1 segment (all four slope-class combinations, both sort orders), "
              "2 edges sharing a vertex for the shared-vertex obligation (thorough); polygons with 3..5 vertices; polygons.intersect: 1x1 and 2x1 edges",
    "out": "floating-point behaviour inside the 1e-14/1e-15 tolerance bands; walls with more than 2 edges (edges are processed element-wise by the vectorised code)",
    "assumptions": ["reals not doubles; tolerances 1e-14, 1e-15, 1e-6 encoded as exact rationals",
                    "completeness is claimed away from degenerate configurations: det^2 >= 1e-12 |d1|^2 |d2|^2, no zero-length edge"],
}

TOL = 1.0e-14
LO, HI = -8, 8


def cross(ax, ay, bx, by):
    return ax * by - ay * bx


def absv(env, x):
    if env.mode == "sym":
        return core.ite(x >= 0, x, -x)
    return abs(x)


def maxv(env, a, b):
    if env.mode == "sym":
        return core.ite(a >= b, a, b)
    return max(a, b)


def pts(env, names):
    return [env.real(n, lo=LO, hi=HI) for n in names]


def _slope_assume(env, dR, dZ, rdominant):
    c = absv(env, dR) > absv(env, dZ)
    env.assume(c if rdominant else ~c if env.mode == "sym" else not c, "slope class")


def _between(env, x, a, b, tol=0.0):
    """min(a,b)-tol <= x <= max(a,b)+tol"""
    if env.mode == "sym":
        lo, hi = core.ite(a <= b, a, b), core.ite(a <= b, b, a)
        return (x >= lo - tol) & (x <= hi + tol)
    return min(a, b) - tol <= x <= max(a, b) + tol


def _mk_find1(edge_rdom, seg_rdom):
    """one wall edge A->B, one segment C->D, fixed slope classes"""
    def body(env):
        env.resolve_abs = False
        env.abstract_div = True
        env.logic = "QF_NRA"
        AR, AZ, BR, BZ, CR, CZ, DR, DZ = pts(env, ["AR", "AZ", "BR", "BZ", "CR", "CZ", "DR", "DZ"])
        d1R, d1Z, d2R, d2Z = BR - AR, BZ - AZ, DR - CR, DZ - CZ
        _slope_assume(env, d1R, d1Z, edge_rdom)
        _slope_assume(env, d2R, d2Z, seg_rdom)
        env.assume((d1R * d1R + d1Z * d1Z > 0) & (d2R * d2R + d2Z * d2Z > 0), "non-zero length")
        if env.mode == "sym":
            wall = numpy.empty((2, 2), dtype=object)
        else:
            wall = numpy.empty((2, 2))
        wall[0, 0], wall[0, 1], wall[1, 0], wall[1, 1] = AR, AZ, BR, BZ
        with sym_numpy(env, eqm):
            res = eqm.find_intersections(wall, Point2D(CR, CZ), Point2D(DR, DZ))
        det = cross(d1R, d1Z, d2R, d2Z)
        # exact crossing point of the two carrier lines, X = A + t d1, t = ((C-A) x d2)/det   (det != 0)
        tnum = cross(CR - AR, CZ - AZ, d2R, d2Z)
        if res is None:
            env.tag("none")
            # completeness.  'inside' is expressed through the dominant coordinate of each segment:
            #   t in [0,1] <=> X_dom1 between A_dom1 and B_dom1 ;  u in [0,1] <=> X_dom2 between C_dom2 and D_dom2
            nondeg = det * det >= 1.0e-12 * (d1R * d1R + d1Z * d1Z) * (d2R * d2R + d2Z * d2Z)
            env.assume(nondeg, "away from parallel")
            XR = AR + tnum / det * d1R
            XZ = AZ + tnum / det * d1Z
            in1 = _between(env, XR, AR, BR) if edge_rdom else _between(env, XZ, AZ, BZ)
            in2 = _between(env, XR, CR, DR) if seg_rdom else _between(env, XZ, CZ, DZ)
            if env.mode == "sym":
                env.claim("complete:crossing_is_reported", ~(in1 & in2))
            else:
                env.claim("complete:crossing_is_reported", not (in1 and in2))
            return
        env.tag("point")
        env.witness("a_point_is_reported")
        env.claim("one_point_per_edge", res.shape == (1, 2))
        PR, PZ = res[0, 0], res[0, 1]
        # soundness: on both carrier lines (identities of rational functions) ...
        env.claim_eq("sound:on_wall_edge_line", cross(PR - AR, PZ - AZ, d1R, d1Z), 0)
        env.claim_eq("sound:on_segment_line", cross(PR - CR, PZ - CZ, d2R, d2Z), 0)
        # ... and within both segments up to the tolerance along the dominant axis of each
        env.claim("sound:within_wall_edge", _between(env, PR, AR, BR, TOL) if edge_rdom else _between(env, PZ, AZ, BZ, TOL))
        env.claim("sound:within_segment", _between(env, PR, CR, DR, TOL) if seg_rdom else _between(env, PZ, CZ, DZ, TOL))
        env.claim("sound:not_parallel", (det > 0) | (det < 0))
    return body


for _e in (True, False):
    for _s in (True, False):
        OBLIGATIONS.append(Ob(
            "find_intersections_edge%s_seg%s" % ("R" if _e else "Z", "R" if _s else "Z"), _mk_find1(_e, _s), tier="quick",
            family="find_intersections", desc="soundness and completeness of the reported crossing vs the exact parametric solution",
            encodes=["hypnotoad.core.equilibrium:find_intersections"], stubs=[], bounds="1 wall edge x 1 segment, coordinates in [-8,8], fixed slope classes",
            max_paths=3000, wall_s=600))


# ---------------------------------------------------------------------------------------------
def _mk_closest():
    def body(env):
        env.abstract_div = True
        pR, pZ, aR, aZ, bR, bZ = pts(env, ["pR", "pZ", "aR", "aZ", "bR", "bZ"])
        env.assume((bR - aR) * (bR - aR) + (bZ - aZ) * (bZ - aZ) > 0, "a != b")
        if env.mode == "sym":
            mk = lambda x, y: numpy.array([x, y], dtype=object)  # noqa
        else:
            mk = lambda x, y: numpy.array([x, y])  # noqa
        with sym_numpy(env, eqm):
            d = eqm.closest_approach(mk(pR, pZ), mk(aR, aZ), mk(bR, bZ))
        env.witness("returned")
        mR, mZ = bR - aR, bZ - aZ
        mm = mR * mR + mZ * mZ
        n = mR * (pR - aR) + mZ * (pZ - aZ)  # = t0 * mm, t0 the projection parameter
        t = env.real("t", lo=0, hi=1)  # arbitrary point of the segment
        qR, qZ = aR + t * mR - pR, aZ + t * mZ - pZ
        gap = qR * qR + qZ * qZ - d * d
        env.claim("nonnegative", d >= 0)
        da2 = (pR - aR) ** 2 + (pZ - aZ) ** 2
        db2 = (pR - bR) ** 2 + (pZ - bZ) ** 2
        # which of the three returns was taken is recognised by the value returned (identity of rational functions)
        if env.identical(d * d, da2):
            env.tag("before_a")
            env.claim("case_a_only_when_projection_before_a", n <= 0)
            env.claim_eq("gap_identity_a", gap, t * (t * mm - 2 * n))
        elif env.identical(d * d, db2):
            env.tag("after_b")
            env.claim("case_b_only_when_projection_after_b", n >= mm)
            env.claim_eq("gap_identity_b", gap, (1 - t) * ((1 - t) * mm + 2 * (n - mm)))
        else:
            env.tag("interior")
            env.claim("case_mid_only_when_projection_inside", (n >= 0) & (n <= mm))
            env.claim_eq("gap_identity_mid", gap * mm, (t * mm - n) ** 2)
        # lemmas over abstract scalars: the three gap expressions are >= 0 on their case
        T, MM, N = env.real("T", lo=0, hi=1), env.real("MM", pos=True), env.real("N")
        env.claim("lemma_gap_a_nonneg", implies(N <= 0, T * (T * MM - 2 * N) >= 0) if env.mode == "sym" else True)
        env.claim("lemma_gap_b_nonneg", implies(N >= MM, (1 - T) * ((1 - T) * MM + 2 * (N - MM)) >= 0) if env.mode == "sym" else True)
        env.claim("lemma_gap_mid_nonneg", ((T * MM - N) * (T * MM - N) >= 0) if env.mode == "sym" else True)
        if env.mode == "conc":
            env.claim("is_lower_bound_over_segment(concrete)", gap >= -1e-9 * (1 + abs(gap)))
    return body


OBLIGATIONS.append(Ob("closest_approach", _mk_closest(), tier="quick", family="closest_approach",
                      desc="result = min over t in [0,1] of |p-(a+t(b-a))| (all three projection cases)",
                      encodes=["hypnotoad.core.equilibrium:closest_approach"], bounds="coordinates in [-8,8], a != b"))


# ---------------------------------------------------------------------------------------------
def _mk_area(n):
    def body(env):
        poly = [(env.real("r%d" % i, lo=LO, hi=HI), env.real("z%d" % i, lo=LO, hi=HI)) for i in range(n)]
        a = polygons.area(poly)
        shoe = 0
        for i in range(n):
            r1, z1 = poly[i]
            r2, z2 = poly[(i + 1) % n]
            shoe = shoe + (r1 * z2 - r2 * z1)
        env.claim_eq("area=-shoelace", a, -0.5 * shoe)
        env.claim_eq("area(reversed)=-area", polygons.area(poly[::-1]), -a)
        env.claim_eq("area(rotated)=area", polygons.area(poly[1:] + poly[:1]), a)
        cw = polygons.clockwise(poly)
        if env.mode == "sym":
            env.claim("clockwise<=>area>0", SymBool(core.lift_bool(cw) == core.lift_bool(a > 0)))
            env.claim("clockwise<=>shoelace<0", SymBool(core.lift_bool(cw) == core.lift_bool(shoe < 0)))
        else:
            env.claim("clockwise<=>area>0", bool(cw) == (a > 0))
            env.claim("clockwise<=>shoelace<0", bool(cw) == (shoe < 0))
        env.witness("done")
    return body


for _n in (3, 4, 5):
    OBLIGATIONS.append(Ob("polygon_area_%d" % _n, _mk_area(_n), tier="quick" if _n < 5 else "thorough", family="polygons.area",
                          desc="area = -(shoelace), antisymmetric under reversal, invariant under rotation; clockwise <=> area > 0",
                          encodes=["hypnotoad.utils.polygons:area", "hypnotoad.utils.polygons:clockwise"], bounds="%d vertices" % _n))


# ---------------------------------------------------------------------------------------------
def _proper_cross(env, A, B, C, D):
    """exact predicate: open segments AB and CD cross at an interior point of both, |det| >= 1e-6"""
    d1 = (B[0] - A[0], B[1] - A[1])
    d2 = (D[0] - C[0], D[1] - C[1])
    det = cross(d1[0], d1[1], d2[0], d2[1])
    tn = cross(C[0] - A[0], C[1] - A[1], d2[0], d2[1])
    un = cross(C[0] - A[0], C[1] - A[1], d1[0], d1[1])
    big = (det >= 1.0e-6) | (det <= -1.0e-6)
    ins = (tn * det > 0) & (tn * det < det * det) & (un * det > 0) & (un * det < det * det)
    return big & ins if env.mode == "sym" else (big and ins)


class _LogList(list):
    """list that records the indices it is read at (to know which edge pairs the routine looks at)"""
    def __init__(self, items, log, tag):
        super().__init__(items)
        self._log, self._tag = log, tag

    def __getitem__(self, k):
        self._log.append((self._tag, k))
        return super().__getitem__(k)


def _mk_pintersect(n1, n2, closed1, closed2, parallel_only=False):
    """parallel_only: all edges of both polylines (including the wrap-around ones) are assumed parallel, so every edge-pair test takes the
    'almost certainly doesn't intersect' branch: what is decided there is WHICH pairs the routine looks at (loop bounds, wrap-around, the
    closed1/closed2 flags); the meaning of one pair test is decided by the obligations without that restriction"""
    def body(env):
        if not parallel_only:
            P1 = [(env.real("p%dr" % i, lo=LO, hi=HI), env.real("p%dz" % i, lo=LO, hi=HI)) for i in range(n1)]
            P2 = [(env.real("q%dr" % i, lo=LO, hi=HI), env.real("q%dz" % i, lo=LO, hi=HI)) for i in range(n2)]
        if parallel_only:
            # all vertices on one line (symbolic positions along it): every determinant vanishes identically (decided by the normal form)
            ss = [env.real("s%d" % i, lo=-4, hi=4) for i in range(n1)]
            tt = [env.real("t%d" % i, lo=-4, hi=4) for i in range(n2)]
            P1 = [(1 + 2 * a, 3 - a) for a in ss]
            P2 = [(1 + 2 * a, 3 - a) for a in tt]
        log = []
        got = polygons.intersect(_LogList([p[0] for p in P1], log, "r1"), _LogList([p[1] for p in P1], log, "z1"),
                                 _LogList([p[0] for p in P2], log, "r2"), _LogList([p[1] for p in P2], log, "z2"), closed1=closed1, closed2=closed2)
        # edge pairs looked at, in order: every visit reads r1[ip], r1[i] first and r2[jp], r2[j] next
        r1reads = [k for (t, k) in log if t == "r1"]
        r2reads = [k for (t, k) in log if t == "r2"]
        visits = []
        a_i, b_i = 0, 0
        while a_i + 2 < len(r1reads) + 1 and b_i + 2 < len(r2reads) + 1 and a_i + 1 < len(r1reads) and b_i + 1 < len(r2reads):
            ip, i = r1reads[a_i], r1reads[a_i + 1]
            jp, j = r2reads[b_i], r2reads[b_i + 1]
            visits.append((i, ip, j, jp))
            a_i += 3   # r1[ip], r1[i], then r1[i] once more for dr
            b_i += 3   # r2[jp], r2[j], then r2[jp] once more for dr
        e1 = [(i, (i + 1) % n1) for i in range(n1 if closed1 else n1 - 1)]
        e2 = [(j, (j + 1) % n2) for j in range(n2 if closed2 else n2 - 1)]
        legit = [(i, ip, j, jp) for (i, ip) in e1 for (j, jp) in e2]
        env.tag("True" if got else "False")
        env.claim("only_real_edge_pairs_are_tested", all(v in legit for v in visits))
        if got:
            i, ip, j, jp = visits[-1]
            env.claim("true_only_when_the_tested_edge_pair_crosses", _proper_cross(env, P1[i], P1[ip], P2[j], P2[jp]))
        else:
            env.claim("false_only_after_every_edge_pair_was_tested", sorted(visits) == sorted(legit))
            for (i, ip, j, jp) in legit:
                pc = _proper_cross(env, P1[i], P1[ip], P2[j], P2[jp])
                env.claim("false_implies_edge_pair_does_not_cross", ~pc if env.mode == "sym" else (not pc))
        env.witness("result_%s" % bool(got))
    return body


for (_n1, _n2, _c1, _c2) in [(3, 2, True, False), (2, 3, False, True), (3, 3, True, True), (3, 3, True, False), (3, 3, False, True), (4, 3, True, True), (4, 2, True, False)]:
    OBLIGATIONS.append(Ob("polygons_intersect_edge_pairs_%d%s_%d%s" % (_n1, "c" if _c1 else "o", _n2, "c" if _c2 else "o"),
                          _mk_pintersect(_n1, _n2, _c1, _c2, parallel_only=True), tier="quick", family="polygons.intersect",
                          desc="which edge pairs are tested: exactly the edges of each polyline (closing edge iff that polyline is closed), all pairs, none else",
                          encodes=["hypnotoad.utils.polygons:intersect"], bounds="%d and %d vertices, closed=%s/%s, all vertices on one line, positions symbolic (every pair test takes the small-determinant branch)" % (_n1, _n2, _c1, _c2),
                          max_paths=200))
# (full-geometry runs with a closing edge were tried: 3 edge pairs with a shared vertex need ~700 s of nlsat time, 9 pairs do not finish in 900 s;
#  the meaning of one pair test is decided on the open polylines below, the loop structure above)
for (_n1, _n2, _c1, _c2, _tier) in [(2, 2, False, False, "quick"), (3, 2, False, False, "quick"), (2, 3, False, False, "quick")]:
    OBLIGATIONS.append(Ob("polygons_intersect_%d%s_%d%s" % (_n1, "c" if _c1 else "o", _n2, "c" if _c2 else "o"),
                          _mk_pintersect(_n1, _n2, _c1, _c2), tier=_tier, family="polygons.intersect",
                          desc="returns True <=> some pair of edges crosses properly (alpha,beta in (0,1), |det| >= 1e-6); open and closed polylines",
                          encodes=["hypnotoad.utils.polygons:intersect"], bounds="%d and %d vertices, closed=%s/%s" % (_n1, _n2, _c1, _c2),
                          max_paths=6000, wall_s=900))


# ---------------------------------------------------------------------------------------------
def _mk_wallintersection(npts):
    """Equilibrium.wallIntersection on top of find_intersections (stubbed by a symbolic list of points): none -> None, one -> that point,
    two coincident within intersect_tolerance (crossing through a shared vertex) -> one point and no error, two distinct -> RuntimeError,
    more -> ValueError"""
    def body(env):
        sym = env.mode == "sym"
        env.resolve_abs = False
        eq = eqm.Equilibrium.__new__(eqm.Equilibrium)
        eq.closed_wallarray = "wall"
        eq.closed_wall = []
        pts = numpy.empty((npts, 2), dtype=object if sym else float)
        for k in range(npts):
            pts[k, 0], pts[k, 1] = env.real("iR%d" % k, lo=LO, hi=HI), env.real("iZ%d" % k, lo=LO, hi=HI)

        def stub(wall, p1, p2):
            return None if npts == 0 else pts

        import contextlib, io
        try:
            with patched((eqm, "find_intersections", stub)), sym_numpy(env, eqm), contextlib.redirect_stdout(io.StringIO()):
                got = eq.wallIntersection(Point2D(0.0, 0.0), Point2D(1.0, 1.0))
            outcome = "returned"
        except RuntimeError:
            got, outcome = None, "RuntimeError"
        except ValueError:
            got, outcome = None, "ValueError"
        env.tag(outcome)
        env.witness("ran_%s" % outcome)
        if npts == 0:
            env.claim("no_crossing_gives_None", outcome == "returned" and got is None)
        elif npts == 1:
            env.claim("single_crossing_returned", outcome == "returned")
            env.claim_eq("single_crossing_point_R", got.R, pts[0, 0])
            env.claim_eq("single_crossing_point_Z", got.Z, pts[0, 1])
        elif npts == 2:
            dR, dZ = absv(env, pts[0, 0] - pts[1, 0]), absv(env, pts[0, 1] - pts[1, 1])
            same = (dR < 1.0e-14) & (dZ < 1.0e-14) if sym else (dR < 1.0e-14 and dZ < 1.0e-14)
            if outcome == "returned":
                env.claim("two_points_accepted_only_if_coincident_within_tolerance", same)
                env.claim_eq("coincident_crossing_reported_as_one_point", got.R, pts[0, 0])
            else:
                env.claim("two_distinct_crossings_raise_RuntimeError", outcome == "RuntimeError")
                env.claim("raised_only_if_distinct", ~same if sym else not same)
        else:
            env.claim("more_than_two_crossings_raise_ValueError", outcome == "ValueError")
    return body


for _n in (0, 1, 2, 3):
    OBLIGATIONS.append(Ob("wallIntersection_%d_points" % _n, _mk_wallintersection(_n), tier="quick", family="wallIntersection",
                          encodes=["hypnotoad.core.equilibrium:Equilibrium.wallIntersection"],
                          desc="none / one / coincident pair (shared vertex) / distinct pair / more than two crossings", stubs=["find_intersections -> %d symbolic points" % _n],
                          bounds="%d points returned by the edge-wise routine" % _n))
