"""C09 - radial psi grid: real Equilibrium.getSmoothMonotonicGridFunc and make1dGrid run on symbolic reals; derivatives by
forward-mode AD (jets) through the real closures; brentq replaced by a root stub; exp/erf/sin/cos uninterpreted with
sound axioms; plus the separatrix-gradient sharing in the real single-/double-null descriptors."""
import types

import numpy
import z3

from symx import core
from symx.core import SymReal, SymBool, implies
from symx.jets import Jet1
from symx.npproxy import patched
from symx.runner import registry, Ob
from harness.common import sym_numpy, PROXY

import hypnotoad.core.equilibrium as eqm

OBLIGATIONS, obligation = registry()

META = {
    "explanation": "Real getSmoothMonotonicGridFunc (all parameter cases) and make1dGrid executed on symbolic reals; f', f'' obtained by running the "
                   "returned closure on second-order jets; z3 decides end values, end gradients, vanishing second derivative, monotonicity and resolution nesting.",
    "bounds": "n real >= 1 (unbounded), lower != upper in either order, gradients with the admissible sign (unbounded); index i real in [0,n]; "
              "make1dGrid: n in 1..3 (array length must be concrete per path)",
    "out": "interior monotonicity and nesting of the Si/Ci ('decreased average spacing, both gradients') case; nesting of the erf cases (needs root uniqueness); "
           "floating-point exactness of the boundary values; continuity across the erf/sici side of a branch switch",
    "assumptions": ["brentq returns a root of its argument inside the bracket (contract stub)",
                    "exp>0, erf(0)=0, erf odd and sign-preserving, sin/cos: Pythagoras, values at multiples of pi/2, double angle (sound axioms; nothing else about them is used)",
                    "float literals idealised to rationals (1.0e-8, 3.0, ...)"],
}


class _Erf:
    def __call__(self, x):
        if isinstance(x, Jet1):
            return x.erf()
        if core.is_sym(x):
            return x._uf("erf")
        import scipy.special
        return scipy.special.erf(x)


def _brentq_stub(env, roots):
    def brentq(f, lo, hi, **kw):
        a = env.real("root%d" % len(roots), lo=lo, hi=hi)
        roots.append(a)
        env.add_uf_axioms()
        val = f(a)
        env.add_uf_axioms()
        env.assume(val == 0, "brentq returns a root")
        return a
    return brentq


def _eq():
    return eqm.Equilibrium.__new__(eqm.Equilibrium)


def _setup(env, both_orders=True):
    n = env.real("n", lo=1)
    lower = env.real("lower", lo=-50, hi=50)
    upper = env.real("upper", lo=-50, hi=50)
    env.assume((upper > lower) | (upper < lower), "lower != upper")
    return n, lower, upper


def _sgn_ok(env, x, U, L, strict=True):
    """x has the sign of (U-L)"""
    d = U - L
    return (x * d > 0) if strict else (x * d >= 0)


_SI = z3.Function("SinIntegral", z3.RealSort(), z3.RealSort())
_CI = z3.Function("CosIntegral", z3.RealSort(), z3.RealSort())


def _sici(x):
    """scipy.special.sici on a symbolic argument: an uninterpreted pair (Si(x), Ci(x))"""
    e = core.lift_real(x)
    return SymReal(_SI(e)), SymReal(_CI(e))


def _run(env, n, lower, upper, gl, gu):
    roots = []
    eq = _eq()
    if env.mode == "sym":
        with sym_numpy(env, eqm), patched((eqm, "brentq", _brentq_stub(env, roots)), (eqm, "erf", _Erf()), (eqm, "sici", _sici)):
            f = eq.getSmoothMonotonicGridFunc(n, lower, upper, grad_lower=gl, grad_upper=gu)
    else:
        f = eq.getSmoothMonotonicGridFunc(n, lower, upper, grad_lower=gl, grad_upper=gu)
    return f, roots


def _eval(env, f, x):
    if env.mode == "sym":
        with sym_numpy(env, eqm), patched((eqm, "erf", _Erf())):
            r = f(x)
        env.add_uf_axioms()
        return r
    return f(x)


def _deriv_conc(f, x, h=1e-5):
    return (f(x + h) - f(x - h)) / (2 * h), (f(x + h) - 2 * f(x) + f(x - h)) / (h * h)


def _jet(env, f, x):
    """(value, f', f'') at x"""
    if env.mode == "sym":
        j = _eval(env, f, Jet1(x, 1, 0))
        j = Jet1.lift(j)
        return j.v, j.d, j.dd
    d1, d2 = _deriv_conc(f, x)
    return f(x), d1, d2


def _common_claims(env, f, n, lower, upper, tag):
    i = env.real("i", lo=0)
    env.assume(i <= n, "0 <= i <= n")
    f0, d0, dd0 = _jet(env, f, 0 * n)
    fn, dn, ddn = _jet(env, f, n)
    fi, di, ddi = _jet(env, f, i)
    env.claim_eq(tag + ":f(0)=lower", f0, lower)
    env.claim_eq(tag + ":f(n)=upper", fn, upper)
    if env.mode == "sym":
        env.claim(tag + ":monotone_on_[0,n]", _sgn_ok(env, di, upper, lower, strict=False))
        interior = (i > 0) & (i < n)
        env.claim(tag + ":strictly_monotone_inside", implies(interior, _sgn_ok(env, di, upper, lower)))
    else:
        env.claim(tag + ":monotone_on_[0,n]", di * (upper - lower) >= -1e-7 * abs(upper - lower))
        if 0 < i < n:
            env.claim(tag + ":strictly_monotone_inside", di * (upper - lower) > 0)
    return (f0, d0, dd0), (fn, dn, ddn), (fi, di, ddi)


def ob_linear(env):
    env.logic = "QF_NRA"
    n, lower, upper = _setup(env)
    f, _ = _run(env, n, lower, upper, None, None)
    env.witness("returned")
    _common_claims(env, f, n, lower, upper, "linear")
    # nesting: doubling n leaves each face a face
    i = env.real("i2", lo=0)
    f2, _ = _run(env, 2 * n, lower, upper, None, None)
    env.claim_eq("linear:nesting", _eval(env, f2, 2 * i), _eval(env, f, i))


def _mk_one_sided(which):
    def body(env):
        n, lower, upper = _setup(env)
        g = env.real("grad")
        env.assume((g > 0) | (g < 0), "gradient non-zero")
        try:
            f, roots = _run(env, n, lower, upper, g if which == "lower" else None, g if which == "upper" else None)
        except ValueError:
            env.tag("refused")
            env.claim("refused_only_for_wrong_sign", (upper - lower) * g < 0)
            return
        env.claim("accepted_only_for_right_sign", (upper - lower) * g >= 0)
        case = "erf" if roots else "cubic"
        env.tag(case)
        env.witness("returned_" + case)
        (f0, d0, dd0), (fn, dn, ddn), _ = _common_claims(env, f, n, lower, upper, case)
        if which == "lower":
            env.claim_eq(case + ":f'(0)=grad_lower", d0, g)
            env.claim_eq(case + ":f''(0)=0", dd0, 0)
        else:
            env.claim_eq(case + ":f'(n)=grad_upper", dn, g)
            env.claim_eq(case + ":f''(n)=0", ddn, 0)
        if case == "cubic":
            # resolution consistency: (2n, g/2) evaluated at 2i equals (n, g) at i
            i2 = env.real("i2", lo=0)
            f2, r2 = _run(env, 2 * n, lower, upper, g / 2 if which == "lower" else None, g / 2 if which == "upper" else None)
            if not r2:
                env.claim_eq("cubic:nesting", _eval(env, f2, 2 * i2), _eval(env, f, i2))
    return body


def ob_both(env):
    n, lower, upper = _setup(env)
    gl, gu = env.real("grad_lower"), env.real("grad_upper")
    env.assume(((gl > 0) | (gl < 0)) & ((gu > 0) | (gu < 0)), "gradients non-zero")
    try:
        f, roots = _run(env, n, lower, upper, gl, gu)
    except ValueError:
        env.tag("refused")
        env.claim("refused_only_for_wrong_sign", ((upper - lower) * gl < 0) | ((upper - lower) * gu < 0))
        return
    if roots:
        env.tag("sici")
        b = roots[0]
        # the Si/Ci case: only the squash coordinates' end points and pole-freeness are decided
        env.claim("sici:b>0_no_pole_in_[0,n]", b > 0)
        return
    env.tag("trig")
    env.witness("returned_trig")
    (f0, d0, dd0), (fn, dn, ddn), _ = _common_claims(env, f, n, lower, upper, "trig")
    env.claim_eq("trig:f'(0)=grad_lower", d0, gl)
    env.claim_eq("trig:f'(n)=grad_upper", dn, gu)
    env.claim_eq("trig:f''(0)=0", dd0, 0)
    env.claim_eq("trig:f''(n)=0", ddn, 0)
    i2 = env.real("i2", lo=0)
    f2, r2 = _run(env, 2 * n, lower, upper, gl / 2, gu / 2)
    if not r2:
        env.claim_eq("trig:nesting", _eval(env, f2, 2 * i2), _eval(env, f, i2))


def ob_make1dgrid(env):
    n = env.int("n", lo=1, hi=3)
    eq = _eq()
    vals = [env.real("face%d" % k, lo=-50, hi=50) for k in range(4)]
    with sym_numpy(env, eqm):
        try:
            res = eq.make1dGrid(n, lambda k: vals[k])
        except ValueError:
            env.tag("refused")
            nn = int(n)
            inc = [vals[k + 1] > vals[k] for k in range(nn)]
            dec = [vals[k + 1] < vals[k] for k in range(nn)]
            if env.mode == "sym":
                env.claim("refused_only_if_faces_not_strictly_monotone", ~(core.sand(*inc) | core.sand(*dec)))
            else:
                env.claim("refused_only_if_faces_not_strictly_monotone", not (all(inc) or all(dec)))
            return
    nn = int(n)
    env.tag("n=%d" % nn)
    env.witness("returned")
    env.claim("length_2n+1", len(res) == 2 * nn + 1)
    for k in range(nn + 1):
        env.claim_eq("faces_at_even_indices", res[2 * k], vals[k])
    for k in range(nn):
        env.claim_eq("centres_are_midpoints", res[2 * k + 1], (vals[k] + vals[k + 1]) / 2)
    up = [res[k + 1] > res[k] for k in range(2 * nn)]
    dn = [res[k + 1] < res[k] for k in range(2 * nn)]
    if env.mode == "sym":
        env.claim("strictly_monotone", core.sand(*up) | core.sand(*dn))
    else:
        env.claim("strictly_monotone", all(up) or all(dn))


def _mk_descriptor(kind, psi_sign=1.0):
    """the real describeSingleNull/DoubleNull hand the same dpsidi_sep to both sides of every separatrix and adjoining segments
    share the separatrix psi"""
    def body(env):
        import harness.c08 as c08
        captured = {}
        orig = c08.build

        eq, mesh, t, sym = c08.build(env, kind, 0, False, capture=captured, psi_sign=psi_sign)
        segs = captured["segments"]
        env.witness("descriptor_built")
        # the separatrix gradient points in the direction in which psi runs through the segments (needed for a monotone radial grid)
        for sname, d in segs.items():
            for key in ("grad_start", "grad_end"):
                if key in d:
                    env.claim("separatrix_gradient_has_the_sign_of_the_segment's_psi_direction:%s" % sname, (d[key] * (d["psi_end"] - d["psi_start"])) > 0)
        psi_sep = eq.psi_sep
        # adjoining radial segments of every poloidal region share their boundary psi value, and private-flux segments end at the psi
        # of their own X-point.  (upper_pf2 / lower_pf2 are the tail of the gridded pf segment: they end where that segment ends.)
        parent = {"upper_pf2": "upper_pf", "lower_pf2": "lower_pf"}
        for rname, reg in captured["regions"].items():
            names = reg["segments"]
            for a, b in zip(names[:-1], names[1:]):
                if b in parent and parent[b] == a:
                    continue  # split of one gridded segment
                end_a = segs[parent.get(a, a)]["psi_end"]
                start_b = segs[b]["psi_start"]
                env.claim("adjoining_segments_share_boundary_psi:%s" % rname, end_a == start_b)
            if "psi" in reg and reg["psi"] is not None:
                # leg regions: the separatrix this leg lies on
                pf = [n for n in names if n.endswith("_pf") or n.endswith("_pf2")][-1]
                # (a connected double null deliberately grids both private-flux regions up to the inner separatrix psi_sep[0])
                want = psi_sep[0] if kind == "cdn" else reg["psi"]
                env.claim("pf_segment_ends_at_the_leg's_own_separatrix:%s" % rname, segs[parent.get(pf, pf)]["psi_end"] == want)
        if kind in ("lsn", "usn"):
            pf = "lower_pf" if kind == "lsn" else "upper_pf"
            # (symbolic equalities, so that a counterexample is a choice of sizes for which the two gradients really differ)
            env.claim_eq("same_gradient_both_sides_of_separatrix(core|sol)", segs["core"]["grad_end"], segs["sol"]["grad_start"])
            env.claim_eq("same_gradient_both_sides_of_separatrix(pf|sol)", segs[pf]["grad_end"], segs["sol"]["grad_start"])
            env.claim("segments_share_separatrix_psi", segs["core"]["psi_end"] == psi_sep[0] and segs["sol"]["psi_start"] == psi_sep[0] and segs[pf]["psi_end"] == psi_sep[0])
            env.claim("separatrix_side_has_no_free_end", "grad_start" not in segs["core"] and "grad_end" not in segs["sol"])
        else:
            g = segs["core"]["grad_end"]
            same = all(env.identical(g, segs[k][e]) if env.mode == "sym" else bool(env.close(g, segs[k][e]))
                       for k, e in (("upper_pf", "grad_end"), ("lower_pf", "grad_end"), ("inner_sol", "grad_start"), ("outer_sol", "grad_start")))
            if "near_sol" in segs:
                same = same and all(env.identical(g, segs["near_sol"][e]) if env.mode == "sym" else bool(env.close(g, segs["near_sol"][e])) for e in ("grad_start", "grad_end"))
                env.claim("near_sol_spans_the_two_separatrices", segs["near_sol"]["psi_start"] == psi_sep[0] and segs["near_sol"]["psi_end"] == psi_sep[1])
                env.claim("sol_starts_at_outer_separatrix", segs["inner_sol"]["psi_start"] == psi_sep[1] and segs["outer_sol"]["psi_start"] == psi_sep[1])
            else:
                env.claim("sol_and_pf_meet_at_the_single_separatrix", all(segs[k][e] == psi_sep[0] for k, e in (
                    ("inner_sol", "psi_start"), ("outer_sol", "psi_start"), ("upper_pf", "psi_end"), ("lower_pf", "psi_end"))))
            env.claim("same_gradient_both_sides_of_every_separatrix", same)
            for k, e in (("upper_pf", "grad_end"), ("lower_pf", "grad_end"), ("inner_sol", "grad_start"), ("outer_sol", "grad_start")):
                env.claim_eq("same_gradient_as_core_side:%s" % k, segs[k][e], g)
            if "near_sol" in segs:
                for e in ("grad_start", "grad_end"):
                    env.claim_eq("same_gradient_as_core_side:near_sol_" + e, segs["near_sol"][e], g)
            env.claim("core_ends_at_inner_separatrix", segs["core"]["psi_end"] == psi_sep[0])
    return body


def ob_segments_wiring(env):
    """segmentsWithPsivals hands each segment's own nx, psi_start, psi_end and separatrix gradients to the grid function in their roles,
    grids it with the same nx, adds psi_vals and leaves the caller's dictionaries alone"""
    import hypnotoad.cases.tokamak as tok
    me = tok.TokamakEquilibrium.__new__(tok.TokamakEquilibrium)
    calls, grids = [], []

    def gridfunc(n, lower, upper, grad_lower=None, grad_upper=None):
        calls.append((n, lower, upper, grad_lower, grad_upper))
        return ("func", len(calls) - 1)

    def make1d(n, f):
        grids.append((n, f))
        return ("grid", n, f)

    me.getSmoothMonotonicGridFunc = gridfunc
    me.make1dGrid = make1d
    segs = {}
    for k, (gs, ge) in enumerate(((False, True), (True, False), (True, True), (False, False))):
        d = {"nx": env.int("nx%d" % k, lo=1), "psi_start": env.real("ps%d" % k), "psi_end": env.real("pe%d" % k)}
        if gs:
            d["grad_start"] = env.real("gs%d" % k)
        if ge:
            d["grad_end"] = env.real("ge%d" % k)
        segs["seg%d" % k] = d
    snapshot = {n: dict(d) for n, d in segs.items()}
    out = me.segmentsWithPsivals(segs)
    env.witness("returned")
    env.claim("one_result_per_segment", list(out) == list(segs))
    for k, (n, d) in enumerate(segs.items()):
        c = calls[k]
        env.claim("grid_function_gets_the_segment's_own_values:%s" % n, c[0] is d["nx"] and c[1] is d["psi_start"] and c[2] is d["psi_end"]
                  and c[3] is d.get("grad_start") and c[4] is d.get("grad_end"))
        env.claim("gridded_with_the_segment's_nx_and_function:%s" % n, out[n]["psi_vals"] == ("grid", d["nx"], ("func", k)) and out[n]["psi_vals"][1] is d["nx"])
        env.claim("result_keeps_the_descriptor:%s" % n, all(out[n][key] is d[key] for key in d))
        env.claim("input_not_modified:%s" % n, set(d) == set(snapshot[n]) and all(d[key] is snapshot[n][key] for key in d))


def ob_radial_limits(env):
    """makeRegions: psi_core/psi_sol/psi_sol_inner/psi_pf_lower/psi_pf_upper are the psi_* option when given, otherwise
    psi_axis + psinorm_* (psi_sep[0] - psi_axis)"""
    from symx import slices
    import hypnotoad.cases.tokamak as tok
    env.resolve_abs = False
    fn, info = slices.slice_function(tok.TokamakEquilibrium.makeRegions, slices.is_assign_to("self.psi_core"), slices.is_assign_to("Rws"), ["self"], tok.__dict__,
                                     name="makeRegions_limits")
    names = ["core", "sol", "sol_inner", "pf_lower", "pf_upper"]
    opts, given = {}, {}
    for n in names:
        opts["psinorm_" + n] = env.real("psinorm_" + n)
        given[n] = bool(env.choose(2))
        opts["psi_" + n] = env.real("psi_" + n) if given[n] else None
    opts["poloidal_spacing_delta_psi"] = None
    me = tok.TokamakEquilibrium.__new__(tok.TokamakEquilibrium)
    me.user_options = types.SimpleNamespace(**opts)
    me.psi_axis = env.real("psi_axis")
    me.psi_sep = [env.real("psi_sep0"), env.real("psi_sep1")]
    env.tag("explicit=%s" % ",".join(n for n in names if given[n]))
    if env.mode == "sym":
        fn.__globals__["np"] = PROXY
    try:
        fn(me)
    finally:
        fn.__globals__["np"] = numpy
    env.witness("limits_set")
    for n in names:
        got = getattr(me, "psi_" + n)
        if given[n]:
            env.claim("explicit_psi_value_is_used:" + n, got is opts["psi_" + n])
        else:
            env.claim_eq("limit_from_normalised_psi:" + n, got, me.psi_axis + opts["psinorm_" + n] * (me.psi_sep[0] - me.psi_axis))
    d = (me.psi_core - me.psi_sol) / 20.0
    dp = me.poloidal_spacing_delta_psi
    env.claim("poloidal_spacing_delta_psi_default=+-(psi_core-psi_sol)/20", ((dp == d) | (dp == -d)) if env.mode == "sym" else bool(env.close(abs(dp), abs(d))))
    env.claim("poloidal_spacing_delta_psi_default>=0", me.poloidal_spacing_delta_psi >= 0)


ENC = ["hypnotoad.core.equilibrium:Equilibrium.getSmoothMonotonicGridFunc"]
OBLIGATIONS.append(Ob("segments_wiring", ob_segments_wiring, tier="quick", family="descriptor", encodes=["hypnotoad.cases.tokamak:TokamakEquilibrium.segmentsWithPsivals"],
                      desc="each radial segment is gridded from its own nx, limits and separatrix gradients (roles not exchanged); caller's dictionaries untouched",
                      stubs=["getSmoothMonotonicGridFunc, make1dGrid -> recorders"], bounds="4 segments covering the 4 combinations of given gradients"))
OBLIGATIONS.append(Ob("radial_limits_from_options", ob_radial_limits, tier="quick", family="descriptor",
                      encodes=["hypnotoad.cases.tokamak:TokamakEquilibrium.makeRegions", "hypnotoad.cases.tokamak:TokamakEquilibrium._psinorm_to_psi"],
                      desc="core/SOL/PFR limits: the psi_* option if given, else psi_axis + psinorm_*(psi_sep[0]-psi_axis), for all 32 given/not-given combinations",
                      bounds="all values real, symbolic"))
OBLIGATIONS.append(Ob("gridfunc_no_gradient", ob_linear, tier="quick", family="linear", desc="end values, monotone, nesting", encodes=ENC, bounds="n>=1 real"))
for _w in ("lower", "upper"):
    OBLIGATIONS.append(Ob("gridfunc_grad_" + _w, _mk_one_sided(_w), tier="quick", family="one-sided gradient",
                          desc="cubic and erf cases: end values, end gradient, f''=0 at the constrained end, monotone on [0,n], cubic nesting; wrong-sign gradient refused",
                          encodes=ENC, stubs=["brentq -> root contract", "erf/exp uninterpreted + axioms"], bounds="n>=1 real, lower!=upper either order",
                          final_timeout_ms=60000))
OBLIGATIONS.append(Ob("gridfunc_grad_both", ob_both, tier="quick", family="two-sided gradient",
                      desc="trig case: end values, both end gradients, f''=0 at both ends, monotone, nesting; Si/Ci case: b>0 only",
                      encodes=ENC, stubs=["brentq -> root contract", "sin/cos/Si/Ci uninterpreted + axioms"], bounds="n>=1 real", final_timeout_ms=60000))
OBLIGATIONS.append(Ob("make1dGrid", ob_make1dgrid, tier="quick", family="make1dGrid",
                      desc="returns 2n+1 strictly monotone values with faces at even indices and centres at midpoints, or raises exactly when faces are not strictly monotone",
                      encodes=["hypnotoad.core.equilibrium:Equilibrium.make1dGrid"], bounds="n in 1..3, face values real"))
for _k, _sg in [(k, sg) for k in ("lsn", "usn", "cdn", "ldn", "udn") for sg in (1.0, -1.0)]:
    OBLIGATIONS.append(Ob("descriptor_separatrix_sharing_" + _k + ("" if _sg > 0 else "_psi_decreasing"), _mk_descriptor(_k, _sg), tier="quick", family="descriptor",
                          desc="both sides of each separatrix receive the same dpsidi_sep and adjoining segments share the separatrix psi value",
                          encodes=["hypnotoad.cases.tokamak:TokamakEquilibrium.describeSingleNull", "hypnotoad.cases.tokamak:TokamakEquilibrium.describeDoubleNull"],
                          stubs=["findLegs", "segmentsWithPsivals (captures its argument)"], bounds="sizes symbolic >= 1"))
