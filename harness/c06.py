"""C06 - zShift, ShiftAngle, dphidy, ShiftTorsion: real MeshRegion.calcZShift on chains of stub regions (quadrature and interpolation
replaced by contract stubs), real DDX on a radial stack, real geometry2."""
import types

import numpy
import z3

from symx import core
from symx.core import SymReal
from symx.npproxy import patched
from symx.runner import registry, Ob
from harness.common import sym_numpy, mk_mla, mla_from, stub_region, MultiLocationArray, mesh_mod, mla_mod
import harness.c02 as c02

OBLIGATIONS, obligation = registry()

META = {
    "explanation": "Real calcZShift on 2-region open and periodic chains with cumulative_trapezoid/interp1d replaced by contract stubs and the real integrand "
                   "closure evaluated on symbols; real DDX on a 3-region radial stack (all connection cases) with symbolic field and psi grids; real geometry2.",
    "bounds": "chains of 2 regions, nx=1, ny=1..2, 3 fine points per cell edge; radial stack of 3 regions with nx=2; all values real",
    "out": "accuracy of the trapezoid rule on the FineContour; ShiftAngle = 2*pi*q for the circular case (needs the integral of an analytic function)",
    "assumptions": ["cumulative_trapezoid(y, x=d, initial=0) returns an array T with T[0]=0 (values otherwise arbitrary: symbols)",
                    "interp1d(d, v) returns a function with F(d[m]) = v[m] (the grid points are fine-contour points in the harness)"],
}


class Fine:
    def __init__(self, env, name, n, start):
        self.distance = numpy.array([env.real("%s_fd%d" % (name, k)) for k in range(n)], dtype=object if env.mode == "sym" else float)
        self.positions = numpy.empty((n, 2), dtype=object if env.mode == "sym" else float)
        for k in range(n):
            self.positions[k, 0] = env.real("%s_R%d" % (name, k), lo=1, hi=9)
            self.positions[k, 1] = env.real("%s_Z%d" % (name, k), lo=-9, hi=9)
        self.startInd = start


class Contour:
    """2*ny+1 grid points which are the fine-contour points number startInd + k"""

    def __init__(self, env, name, ny, extra=1):
        self.npts = 2 * ny + 1
        self.fine = Fine(env, name, self.npts + 2 * extra, extra)
        self.extra = extra
        # index of the first grid point within the coarse contour (differs from the fine contour's startInd)
        self.startInd = 0
        self.endInd = self.npts - 1

    def get_fine_contour(self, psi=None):
        return self.fine

    def get_distance(self, psi=None):
        return [self.fine.distance[self.extra + k] for k in range(self.npts)]


def _mk_zshift(periodic):
    def body(env):
        sym = env.mode == "sym"
        nx, ny = 1, 1
        regs = []
        trapz_calls = []
        fpol_calls = []
        for rid in range(2):
            r = stub_region(nx, ny, True)
            r.name = "reg%d" % rid
            r.myID = rid
            r.contours = [Contour(env, "r%dc%d" % (rid, i), ny) for i in range(2 * nx + 1)]
            r.equilibriumRegion = types.SimpleNamespace(psi=None, name="reg%d" % rid)
            # radial psi labels of the contours (a value per contour; fpol must be evaluated at the psi of the points, not looked up by some index)
            r.psi_vals = [env.real("psi_label_r%d_%d" % (rid, i)) for i in range(2 * nx + 1)]
            regs.append(r)
        regs[0].yGroupIndex, regs[1].yGroupIndex = 0, 1
        regs[0].connections = {"inner": None, "outer": None, "lower": 1 if periodic else None, "upper": 1}
        regs[1].connections = {"inner": None, "outer": None, "lower": 0, "upper": 0 if periodic else None}
        # equilibrium field functions: uninterpreted-by-position symbols, one value per fine point
        vals = {}

        def field(name):
            def f(R, Z):
                key = (name, tuple(id(x) for x in numpy.asarray(R, dtype=object).flat))
                if key not in vals:
                    n = numpy.size(R)
                    vals[key] = numpy.array([env.real("%s_%d_%d" % (name, len(vals), k)) for k in range(n)], dtype=object if sym else float)
                return vals[key]
            return f

        def fpol(psi):
            # fpol is a function of psi: one value per element of the argument (the same argument array gives the same values)
            flat = list(numpy.asarray(psi, dtype=object).flat)
            key = ("fpol", tuple(id(x) for x in flat))
            if key not in vals:
                vals[key] = numpy.array([env.real("fpol_%d_%d" % (len(vals), k)) for k in range(len(flat))], dtype=object if sym else float)
            fpol_calls.append((psi, vals[key]))
            return vals[key] if numpy.ndim(psi) else vals[key][0]

        eqm_ = types.SimpleNamespace(psi=field("psi"), Bp_R=field("BR"), Bp_Z=field("BZ"), fpol=fpol)
        mp = types.SimpleNamespace(equilibrium=eqm_, regions={0: regs[0], 1: regs[1]})
        for r in regs:
            r.meshParent = mp

        def ctrap(y, x=None, initial=None):
            T = numpy.array([0.0 * y[0] + initial] + [env.real("T%d_%d" % (len(trapz_calls), k)) for k in range(1, len(y))], dtype=object if sym else float)
            trapz_calls.append((y, x, T))
            return T

        def interp1d(xs, vs, kind=None, assume_sorted=None):
            table = [(x, v) for x, v in zip(xs, vs)]

            def F(d):
                out = []
                for q in d:
                    hit = [v for (x, v) in table if (x is q) or (sym and core.is_sym(x) and core.is_sym(q) and x.e.get_id() == q.e.get_id())
                           or (not sym and x == q)]
                    if not hit:
                        raise core.HarnessError("interp1d stub asked for a non-node point")
                    out.append(hit[0])
                return numpy.array(out, dtype=object if sym else float)
            return F

        with sym_numpy(env, mla_mod, mesh_mod), patched((mesh_mod, "cumulative_trapezoid", ctrap), (mesh_mod, "interp1d", interp1d)):
            regs[0].calcZShift()
            none_for_later_region = regs[1].calcZShift()
        env.witness("calcZShift_returned")
        env.claim("only_first_region_of_chain_integrates", none_for_later_region is None)
        z0, z1 = regs[0].zShift, regs[1].zShift
        # zero at the start of the chain (the first grid point of every contour is the contour's startInd point)
        for loc, idx in (("ylow", (0, 0)), ("corners", (0, 0)), ("corners", (1, 0))):
            env.claim_eq("zero_at_chain_start@" + loc, getattr(z0, loc)[idx], 0)
        # continuity across the join: value at the upper face of region 0 == lower face of region 1
        env.claim_eq("continuous_across_join@ylow", z1.ylow[0, 0], z0.ylow[0, -1])
        env.claim_eq("continuous_across_join@corners", z1.corners[1, 0], z0.corners[1, -1])
        # increments inside a region are differences of the quadrature values T at the grid points
        #   (contour 1 = centre/ylow line of cell 0; grid point k is fine point 1+k)
        T = trapz_calls[1][2]
        env.claim_eq("centre_minus_ylow_is_quadrature_increment", z0.centre[0, 0] - z0.ylow[0, 0], T[2] - T[1])
        env.claim_eq("upper_face_minus_centre_is_quadrature_increment", z0.ylow[0, 1] - z0.centre[0, 0], T[3] - T[2])
        # xlow/corner line uses even contours
        T0 = trapz_calls[0][2]
        env.claim_eq("xlow_minus_corner_is_quadrature_increment", z0.xlow[0, 0] - z0.corners[0, 0], T0[2] - T0[1])
        # second region of the chain: every location continues from the value at the shared face (calls 3..5 are its contours)
        T3, T4 = trapz_calls[3][2], trapz_calls[4][2]
        env.claim_eq("second_region_xlow=shared_corner+quadrature_increment", z1.xlow[0, 0] - z0.corners[0, -1], T3[2] - T3[1])
        env.claim_eq("second_region_centre=shared_face+quadrature_increment", z1.centre[0, 0] - z0.ylow[0, -1], T4[2] - T4[1])
        env.claim_eq("second_region_upper_face=shared_face+quadrature_increment", z1.ylow[0, -1] - z0.ylow[0, -1], T4[3] - T4[1])
        env.claim_eq("second_region_upper_corner=shared_corner+quadrature_increment", z1.corners[0, -1] - z0.corners[0, -1], T3[3] - T3[1])
        # integrand = Bt/(R*|Bp|) with Bt = fpol/R
        y, x, _ = trapz_calls[1]
        fine = regs[0].contours[1].fine
        key = [k for k in vals if k[0] == "BR"]
        BR = [v for k, v in vals.items() if k[0] == "BR"][1]
        BZ = [v for k, v in vals.items() if k[0] == "BZ"][1]
        psis = [v for k, v in vals.items() if k[0] == "psi"]
        psi_fine = psis[1] if len(psis) > 1 else None      # psi evaluated at the fine points of this contour
        # (the flux-surface label of this contour would do as well as psi at its points: both are "psi on this surface")
        label = regs[0].psi_vals[1]
        hit = [ret if numpy.ndim(arg) else ret[0] * numpy.ones(len(y), dtype=object if sym else float)
               for (arg, ret) in fpol_calls if (psi_fine is not None and arg is psi_fine) or arg is label]
        env.claim("fpol_evaluated_at_psi_of_this_flux_surface", len(hit) >= 1)
        fpv = hit[0] if hit else fpol_calls[1][1] * numpy.ones(len(y), dtype=object if sym else float)
        for m in (0, 2):
            Rm = fine.positions[m, 0]
            env.claim_eq("integrand^2=(fpol(psi(R,Z))/R)^2/(R^2*Bp^2)", y[m] * y[m] * Rm ** 4 * (BR[m] ** 2 + BZ[m] ** 2), fpv[m] * fpv[m])
            if sym:
                env.claim("sign(integrand)=sign(fpol)", core.implies(BR[m] ** 2 + BZ[m] ** 2 > 0, y[m] * fpv[m] >= 0))
        env.claim("quadrature_abscissa_is_fine_distance", x is fine.distance)
        if periodic:
            sa = regs[0].ShiftAngle
            env.claim_eq("ShiftAngle=last_upper_face-first_lower_face", sa.centre[0, 0], z1.ylow[0, -1] - z0.ylow[0, 0])
            env.claim_eq("ShiftAngle_xlow", sa.xlow[1, 0], z1.corners[1, -1] - z0.corners[1, 0])
        else:
            env.claim("ShiftAngle_untouched_on_open_chain", regs[0].ShiftAngle._centre_array is None and regs[0].ShiftAngle._xlow_array is None)
    return body


# ---------------------------------------------------------------------------------------------
def _mk_ddx(has_inner, has_outer):
    def body(env):
        sym = env.mode == "sym"
        nx, ny = 2, 1
        locs = ("centre", "xlow", "ylow", "corners")
        regs = {}
        for rid in (0, 1, 2):
            r = stub_region(nx, ny, True)
            r.myID = rid
            r.psi_vals = numpy.array([env.real("psi%d_%d" % (rid, k)) for k in range(2 * nx + 1)], dtype=object if sym else float)
            with sym_numpy(env, mla_mod, mesh_mod):
                r.fld = mk_mla(env, nx, ny, "f%d" % rid, locs, lo=-9, hi=9)
            regs[rid] = r
        # strictly increasing psi through the stack, shared boundary values
        for rid in (0, 1, 2):
            pv = regs[rid].psi_vals
            env.assume(core.sand(*[pv[k + 1] > pv[k] for k in range(2 * nx)]) if sym else all(pv[k + 1] > pv[k] for k in range(2 * nx)), "psi increasing")
        env.assume(env.close(regs[0].psi_vals[-1], regs[1].psi_vals[0]) & env.close(regs[1].psi_vals[-1], regs[2].psi_vals[0]) if sym else
                   (regs[0].psi_vals[-1] == regs[1].psi_vals[0] and regs[1].psi_vals[-1] == regs[2].psi_vals[0]), "shared radial boundary psi")
        mid = regs[1]
        mid.connections = {"inner": 0 if has_inner else None, "outer": 2 if has_outer else None, "lower": None, "upper": None}
        regs[0].connections = {"inner": None, "outer": 1, "lower": None, "upper": None}
        regs[2].connections = {"inner": 1, "outer": None, "lower": None, "upper": None}
        mp = types.SimpleNamespace(regions=regs, dy_scalar=1.0, equilibrium=None)
        with sym_numpy(env, mla_mod, mesh_mod):
            for r in regs.values():
                r.meshParent = mp
                # dx exactly as geometry1 sets it up (real code: run the first statements of geometry1 through a slice-free path)
                _geometry1_dx(env, r)
            res = mid.DDX("#fld")
        env.witness("DDX_returned")
        pv, f = mid.psi_vals, mid.fld
        for i in range(nx):
            env.claim_eq("centre=(xlow[i+1]-xlow[i])/dx", res.centre[i, 0], (f.xlow[i + 1, 0] - f.xlow[i, 0]) / (pv[2 * i + 2] - pv[2 * i]))
            env.claim_eq("ylow=(corners[i+1]-corners[i])/dx", res.ylow[i, 0], (f.corners[i + 1, 0] - f.corners[i, 0]) / (pv[2 * i + 2] - pv[2 * i]))
        # interior x-face: difference of adjacent cell centres over their psi distance
        env.claim_eq("xlow_interior=(centre[i]-centre[i-1])/dpsi_between_centres", res.xlow[1, 0], (f.centre[1, 0] - f.centre[0, 0]) / (pv[3] - pv[1]))
        env.claim_eq("corners_interior", res.corners[1, 0], (f.ylow[1, 0] - f.ylow[0, 0]) / (pv[3] - pv[1]))
        if has_inner:
            fin, pin = regs[0].fld, regs[0].psi_vals
            env.claim_eq("xlow_inner_face_across_regions", res.xlow[0, 0], (f.centre[0, 0] - fin.centre[-1, 0]) / (pv[1] - pin[-2]))
        else:
            env.claim_eq("xlow_inner_face_one_sided", res.xlow[0, 0], (f.centre[0, 0] - f.xlow[0, 0]) / (pv[1] - pv[0]))
        if has_outer:
            fo, po = regs[2].fld, regs[2].psi_vals
            env.claim_eq("xlow_outer_face_across_regions", res.xlow[-1, 0], (fo.centre[0, 0] - f.centre[-1, 0]) / (po[1] - pv[-2]))
        else:
            env.claim_eq("xlow_outer_face_one_sided", res.xlow[-1, 0], (f.xlow[-1, 0] - f.centre[-1, 0]) / (pv[-1] - pv[-2]))
    return body


def _geometry1_dx(env, r):
    """run the real geometry1 far enough to create self.dx (everything else it needs is stubbed)"""
    sym = env.mode == "sym"
    nx, ny = r.nx, r.ny
    locs = ("centre", "xlow", "ylow", "corners")
    zero = MultiLocationArray(nx, ny).zero()
    one = MultiLocationArray(nx, ny).zero()
    for loc in locs:
        getattr(one, loc)[...] = SymReal(z3.RealVal(1)) if sym else 1.0
        if sym:
            getattr(zero, loc)[...] = SymReal(z3.RealVal(0))
    mp = r.meshParent
    saved_eq = mp.equilibrium
    mp.equilibrium = types.SimpleNamespace(psi=lambda R, Z: zero, Bp_R=lambda R, Z: one, Bp_Z=lambda R, Z: zero, fpol=lambda p: one,
                                           regions={"stub": types.SimpleNamespace()})
    r.Rxy = MultiLocationArray(nx, ny).zero()
    r.Zxy = MultiLocationArray(nx, ny).zero()
    for loc in locs:
        getattr(r.Rxy, loc)[...] = 1.0
    # make the Bp.dy probe positive: R increases with y at the probe cell
    if ny >= 2:
        r.Rxy.centre[-1, ny // 2 + 1 if ny // 2 + 1 < ny else -1] = 2.0
    r.calcPoloidalDistance = lambda: None
    try:
        r.geometry1()
    except IndexError:
        # ny == 1: the probe cell indexing of the sign test is out of range; dx has been created before that point
        pass
    finally:
        mp.equilibrium = saved_eq


def ob_shifttorsion_wiring(env):
    """calcMetric: ShiftTorsion is DDX of dphidy"""
    with sym_numpy(env):
        r, hy, bpabs = c02.build(env, True, 1.0)
        seen = []
        marker = MultiLocationArray(1, 1).zero()

        def ddx(expr):
            seen.append(expr)
            return marker
        r.DDX = ddx
        c02.run_metric(env, r)
    env.witness("calcMetric_returned")
    env.claim("ShiftTorsion=DDX(dphidy)", seen == ["#dphidy"] and r.ShiftTorsion is marker)
    for loc in ("centre", "ylow"):
        env.claim_eq("dphidy=hy*Bt/(Bp*R)@" + loc, getattr(r.dphidy, loc)[0, 0],
                     getattr(hy, loc)[0, 0] * getattr(r.Btxy, loc)[0, 0] / (getattr(r.Bpxy, loc)[0, 0] * getattr(r.Rxy, loc)[0, 0]))


ENCZ = ["hypnotoad.core.mesh:MeshRegion.calcZShift"]
for _p in (False, True):
    OBLIGATIONS.append(Ob("zshift_chain_%s" % ("periodic" if _p else "open"), _mk_zshift(_p), tier="quick", family="calcZShift", encodes=ENCZ,
                          desc="zero at chain start, continuity across joins, increments = quadrature increments, integrand = Bt/(R|Bp|), ShiftAngle on periodic chains only",
                          stubs=["cumulative_trapezoid -> symbols with T[0]=0", "interp1d -> exact at nodes"], bounds="2 regions, nx=1, ny=1"))
for _i in (False, True):
    for _o in (False, True):
        OBLIGATIONS.append(Ob("ddx_inner%d_outer%d" % (_i, _o), _mk_ddx(_i, _o), tier="quick", family="DDX",
                              encodes=["hypnotoad.core.mesh:MeshRegion.DDX", "hypnotoad.core.mesh:MeshRegion.geometry1", "hypnotoad.core.mesh:MeshRegion._eval_from_region"],
                              desc="centre/ylow: centred difference over dx; xlow/corners: difference of adjacent centres over their psi distance (one-sided at boundaries, across regions at connections); finite",
                              bounds="3 radial regions, nx=2, ny=1, psi strictly increasing, symbolic field"))
OBLIGATIONS.append(Ob("shifttorsion_and_dphidy", ob_shifttorsion_wiring, tier="quick", family="wiring",
                      encodes=["hypnotoad.core.mesh:MeshRegion.calcMetric", "hypnotoad.core.mesh:MeshRegion.geometry2"],
                      desc="ShiftTorsion = DDX(dphidy); dphidy = hy*Bt/(Bp*R)", bounds="1x1 region"))

# ---------------------------------------------------------------------------------------------
def ob_xarrays_from_regions(env):
    """BoutMesh.geometry/addFromRegionsXArray (ShiftAngle, total_poloidal_distance): at both locations the global x-array holds, over the radial range
    of each y-group, the value of the group's FIRST region - wherever that region sits in y - and NaN only where no group has a value"""
    import ast as _ast
    from symx import slices as _sl
    fn, info = _sl.slice_function(mesh_mod.BoutMesh.geometry, lambda n: isinstance(n, _ast.FunctionDef) and n.name == "addFromRegionsXArray",
                                  lambda n: isinstance(n, _ast.Expr) and "addFromRegions('Rxy'" in _ast.unparse(n), ["self"], mesh_mod.__dict__, name="geometry_addFromRegionsXArray")
    sym = env.mode == "sym"
    # radial blocks x in [0,2) and [2,3); y-groups: core (starts at y=2, i.e. NOT at the beginning of the y range) + inner leg PF/outer...,
    # layout: region 0 = leg at y 0..2 (x 0..2), region 1 = core at y 2..5 (x 0..2, own closed y-group), region 2 = SOL chain first region at y 0..2 (x 2..3)
    layout = {0: (slice(0, 2), slice(0, 2)), 1: (slice(0, 2), slice(2, 5)), 2: (slice(2, 3), slice(0, 2)), 3: (slice(2, 3), slice(2, 5))}
    with sym_numpy(env, mla_mod, mesh_mod):
        regs = {}
        for rid, (xs, ys) in layout.items():
            nx = xs.stop - xs.start
            r = types.SimpleNamespace(myID=rid)
            a = MultiLocationArray(nx, 1)
            if rid in (1, 2):   # regions that define a value (closed core; and, for the test of placement, the first SOL region)
                for i in range(nx):
                    a.centre[i, 0] = env.real("v%d_centre_%d" % (rid, i))
                for i in range(nx + 1):
                    a.xlow[i, 0] = env.real("v%d_xlow_%d" % (rid, i))
            a.attributes = {}
            r.ShiftAngle = a
            regs[rid] = r
        # y-groups: [leg0 (open PF chain: 0 alone)], [core 1], [SOL chain: 2 then 3]
        me = types.SimpleNamespace(nx=3, ny=5, regions=regs, region_indices=layout, arrayXDirection_to_output=[],
                                   y_groups=[[regs[0]], [regs[1]], [regs[2], regs[3]]])
        loc_ = fn(me)
        loc_["addFromRegionsXArray"]("ShiftAngle")
    env.witness("collected")
    g = me.ShiftAngle
    env.claim("registered_as_x_array", me.arrayXDirection_to_output == ["ShiftAngle"] and g.attributes.get("bout_type") == "ArrayX")
    # region 0 (no arrays set) is listed first for x in 0..2 and leaves NaN; region 1 (core, y offset 2) then fills x in 0..2; region 2 fills x = 2
    def isnan(v):
        return isinstance(v, (float, numpy.floating)) and v != v

    def same(name, got, want):
        env.claim(name + ":defined(not_NaN)", not isnan(got))
        if not isnan(got):
            env.claim_eq(name, got, want)

    for i in range(2):
        same("centre_over_the_core's_x_range_is_the_core's_value", g.centre[i, 0], regs[1].ShiftAngle.centre[i, 0])
        same("xlow_over_the_core's_x_range_is_the_core's_value", g.xlow[i, 0], regs[1].ShiftAngle.xlow[i, 0])
    same("centre_from_first_region_of_the_outer_group", g.centre[2, 0], regs[2].ShiftAngle.centre[0, 0])
    same("xlow_from_first_region_of_the_outer_group", g.xlow[2, 0], regs[2].ShiftAngle.xlow[0, 0])

OBLIGATIONS.append(Ob("x_arrays_collected_from_y_groups", ob_xarrays_from_regions, tier="quick", family="collection", encodes=["hypnotoad.core.mesh:BoutMesh.geometry"],
                      desc="ShiftAngle / total_poloidal_distance: centre AND xlow of the global x-array take the value of the first region of each y-group over its radial range, "
                           "also when that region does not start at y=0 (the core of every X-point topology)", bounds="4 regions in 3 y-groups, values symbolic"))


def _ygroups(kind):
    def body(env):
        import harness.c08 as m   # resolved at call time
        return m._mk_ygroups(kind)(env)
    return body


for _k in ("lsn", "cdn", "ldn", "udn", "circular_core"):
    OBLIGATIONS.append(Ob("origin_of_the_closed_surface_integrals_" + _k, _ygroups(_k), tier="quick", family="calcZShift",
                          encodes=["hypnotoad.core.mesh:Mesh.makeRegions"],
                          desc="the chain of y-connected core regions starts at its first region in y-index order (where the integrated quantity is zero): shared with C08",
                          bounds="real constructor on symbolic sizes", max_paths=400))
