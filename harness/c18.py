"""C18 - the functions the equilibrium exposes are mutually consistent derivatives of one interpolant: real spline-branch
closures, real base-class helper chain, real DCT_2D derivative methods and the circular analytic equilibrium, all compared
with forward-mode AD (jets) of the real value functions."""
import types

import numpy
import z3

from symx import core
from symx.core import SymReal
from symx.jets import Jet2
from symx.npproxy import patched
from symx.runner import registry, Ob
from harness.common import sym_numpy, PROXY, mk_mla, MultiLocationArray, mla_mod
from harness.fieldstub import PsiTable, make_equilibrium, with_fpol, field_numpy

import hypnotoad.core.equilibrium as eqm
import hypnotoad.utils.dct_interpolation as dctm

OBLIGATIONS, obligation = registry()

META = {
    "explanation": "Real closures of magneticFunctionsFromGrid (spline branch), real helper chain Bzeta..dBdZ, real DCT_2D.__call__/ddR/ddZ/d2dR2/d2dZ2/d2dRdZ and "
                   "the circular analytic equilibrium are evaluated on symbols and on jets; z3 decides that each derivative function equals the AD derivative of the value function.",
    "bounds": "evaluation point strictly inside the interpolation box (numpy.clip acts as identity); psi and its partial derivatives at the point are free reals "
              "(symmetric mixed partials); DCT: 2x2 and 3x2 coefficient arrays, scalar argument; circular: one q coefficient",
    "out": "reproduction of the input array at the nodes (spline fit / DCT inversion: compiled code, trigonometric sums); agreement between the two methods within interpolation error; "
           "array and MultiLocationArray arguments of DCT_2D beyond the dispatch logic",
    "assumptions": ["RectBivariateSpline(dx,dy) returns the corresponding partial derivative of one smooth function (contract of the interpolant)",
                    "sin/cos uninterpreted + derivative rules d sin = cos, d cos = -sin", "reals not doubles"],
}


def ob_closures(env):
    tab = PsiTable(env)
    R, Z = env.real("R", lo=1, hi=999), env.real("Z", lo=-999, hi=999)
    eq = make_equilibrium(env, tab, jets=False)
    env.assume(tab.pR * tab.pR + tab.pZ * tab.pZ > 0, "grad psi != 0")
    with field_numpy(env, eq):
        env.claim_eq("psi", eq.psi(R, Z), tab.p)
        g2 = tab.pR * tab.pR + tab.pZ * tab.pZ
        env.claim_eq("f_R=psi_R/|grad psi|^2", eq.f_R(R, Z), tab.pR / g2)
        env.claim_eq("f_Z=psi_Z/|grad psi|^2", eq.f_Z(R, Z), tab.pZ / g2)
        env.claim_eq("Bp_R=psi_Z/R", eq.Bp_R(R, Z), tab.pZ / R)
        env.claim_eq("Bp_Z=-psi_R/R", eq.Bp_Z(R, Z), -tab.pR / R)
        env.claim_eq("d2psidR2", eq.d2psidR2(R, Z), tab.pRR)
        env.claim_eq("d2psidZ2", eq.d2psidZ2(R, Z), tab.pZZ)
        env.claim_eq("d2psidRdZ", eq.d2psidRdZ(R, Z), tab.pRZ)
    env.witness("evaluated")


def ob_closure_arguments(env):
    """every closure evaluates the interpolant at the point it was called with (the clip to the grid box is the identity inside the
    box, and uses the R extent for R and the Z extent for Z); outside the box f_R/f_Z use the nearest point of the box"""
    tab = PsiTable(env)
    Rlo, Rhi = env.real("grid_Rmin", lo=0.1, hi=50), env.real("grid_Rmax", lo=0.1, hi=50)
    Zlo, Zhi = env.real("grid_Zmin", lo=-50, hi=50), env.real("grid_Zmax", lo=-50, hi=50)
    env.assume((Rlo < Rhi) & (Zlo < Zhi) if env.mode == "sym" else (Rlo < Rhi and Zlo < Zhi), "grid extent")
    R, Z = env.real("R", lo=0.1, hi=50), env.real("Z", lo=-50, hi=50)
    inside = (R >= Rlo) & (R <= Rhi) & (Z >= Zlo) & (Z <= Zhi) if env.mode == "sym" else (Rlo <= R <= Rhi and Zlo <= Z <= Zhi)
    env.assume(inside, "evaluation point inside the grid box")
    env.assume(tab.pR * tab.pR + tab.pZ * tab.pZ > 0, "grad psi != 0")
    eq = make_equilibrium(env, tab, jets=False, box=(Rlo, Rhi, Zlo, Zhi))
    with field_numpy(env, eq):
        for name in ("psi", "f_R", "f_Z", "Bp_R", "Bp_Z", "d2psidR2", "d2psidZ2", "d2psidRdZ"):
            del eq._psi_args[:]
            getattr(eq, name)(R, Z)
            env.claim(name + ":interpolant_called", len(eq._psi_args) >= 1)
            for (a, b, dx, dy) in eq._psi_args:
                env.claim_eq(name + ":interpolant_evaluated_at_R", a, R)
                env.claim_eq(name + ":interpolant_evaluated_at_Z", b, Z)
    env.witness("evaluated")


def ob_helper_chain(env):
    tab = PsiTable(env)
    R, Z = env.real("R", lo=1, hi=999), env.real("Z", lo=-999, hi=999)
    e0 = make_equilibrium(env, tab, jets=False)
    e1 = make_equilibrium(env, tab, jets=True)
    if env.mode == "sym":
        f = env.real("fpol")
        fp = env.real("fpolprime")
        e0.fpol = lambda psi: f
        e0.fpolprime = lambda psi: fp
        e1.fpol = lambda psi: Jet2(f, fp * Jet2.lift(psi).dR, fp * Jet2.lift(psi).dZ)
        e1.fpolprime = lambda psi: fp
        Rj, Zj = Jet2(R, 1, 0), Jet2(Z, 0, 1)
        with field_numpy(env, e0):
            pairs = {
                "dBRdR": (e0.dBRdR(R, Z), e1.Bp_R(Rj, Zj).dR), "dBRdZ": (e0.dBRdZ(R, Z), e1.Bp_R(Rj, Zj).dZ),
                "dBZdR": (e0.dBZdR(R, Z), e1.Bp_Z(Rj, Zj).dR), "dBZdZ": (e0.dBZdZ(R, Z), e1.Bp_Z(Rj, Zj).dZ),
                "dBzetadR": (e0.dBzetadR(R, Z), e1.Bzeta(Rj, Zj).dR), "dBzetadZ": (e0.dBzetadZ(R, Z), e1.Bzeta(Rj, Zj).dZ),
                "dB2dR": (e0.dB2dR(R, Z), e1.B2(Rj, Zj).dR), "dB2dZ": (e0.dB2dZ(R, Z), e1.B2(Rj, Zj).dZ),
            }
            for k, (a, b) in pairs.items():
                env.claim_eq(k + "=AD", a, b)
            env.claim_eq("divB=0", e0.dBRdR(R, Z) + e0.Bp_R(R, Z) / R + e0.dBZdZ(R, Z), 0)
            B2 = e0.B2(R, Z)
            env.assume(B2 > 0, "B != 0")
            env.claim_eq("Bzeta=fpol/R", e0.Bzeta(R, Z), f / R)
            env.claim_eq("B2=BR^2+BZ^2+Bzeta^2", B2, (tab.pZ / R) ** 2 + (tab.pR / R) ** 2 + (f / R) ** 2)
            dBdR, dBdZ = e0.dBdR(R, Z), e0.dBdZ(R, Z)
            # dB/dR * 2B = dB2/dR with B = sqrt(B2) >= 0
            env.claim_eq("dBdR*2B=dB2dR", dBdR * dBdR * 4 * B2, e0.dB2dR(R, Z) ** 2)
            env.claim("sign(dBdR)=sign(dB2dR)", dBdR * e0.dB2dR(R, Z) >= 0)
            env.claim_eq("dBdZ*2B=dB2dZ", dBdZ * dBdZ * 4 * B2, e0.dB2dZ(R, Z) ** 2)
            env.claim("sign(dBdZ)=sign(dB2dZ)", dBdZ * e0.dB2dZ(R, Z) >= 0)
        env.witness("evaluated")
    else:
        # concrete replay: finite differences of the real value functions on a concrete quadratic psi with the model's derivatives
        v = env.values
        g = lambda n: float(v.get(n, 0.3))  # noqa
        R0, Z0 = float(R), float(Z)
        quad = dict(p=g("psi"), pR=g("psi_R"), pZ=g("psi_Z"), pRR=g("psi_RR"), pRZ=g("psi_RZ"), pZZ=g("psi_ZZ"))
        f0, fp0 = g("fpol"), g("fpolprime")
        eq = _concrete_quadratic_equilibrium(quad, R0, Z0, f0, fp0)
        h = 1e-5
        fd = lambda fn, dR, dZ: (fn(R0 + dR * h, Z0 + dZ * h) - fn(R0 - dR * h, Z0 - dZ * h)) / (2 * h)  # noqa
        chk = {"dBRdR": (eq.dBRdR, eq.Bp_R, 1, 0), "dBRdZ": (eq.dBRdZ, eq.Bp_R, 0, 1), "dBZdR": (eq.dBZdR, eq.Bp_Z, 1, 0), "dBZdZ": (eq.dBZdZ, eq.Bp_Z, 0, 1),
               "dBzetadR": (eq.dBzetadR, eq.Bzeta, 1, 0), "dBzetadZ": (eq.dBzetadZ, eq.Bzeta, 0, 1), "dB2dR": (eq.dB2dR, eq.B2, 1, 0), "dB2dZ": (eq.dB2dZ, eq.B2, 0, 1)}
        for k, (der, val, a, b) in chk.items():
            env.claim(k + "=AD", bool(env.close(der(R0, Z0), fd(val, a, b), 1e-5)))
        env.claim("divB=0", bool(env.close(eq.dBRdR(R0, Z0) + eq.Bp_R(R0, Z0) / R0 + eq.dBZdZ(R0, Z0), 0.0, 1e-6)))


def _concrete_quadratic_equilibrium(q, R0, Z0, f0, fp0):
    """an Equilibrium whose psi is the quadratic with the given derivatives at (R0,Z0), fpol linear in psi; real helper chain"""
    eq = eqm.Equilibrium.__new__(eqm.Equilibrium)

    def psi(R, Z):
        a, b = R - R0, Z - Z0
        return q["p"] + q["pR"] * a + q["pZ"] * b + 0.5 * q["pRR"] * a * a + q["pRZ"] * a * b + 0.5 * q["pZZ"] * b * b

    eq.psi = psi
    eq.Bp_R = lambda R, Z: (q["pZ"] + q["pRZ"] * (R - R0) + q["pZZ"] * (Z - Z0)) / R
    eq.Bp_Z = lambda R, Z: -(q["pR"] + q["pRR"] * (R - R0) + q["pRZ"] * (Z - Z0)) / R
    eq.d2psidR2 = lambda R, Z: q["pRR"]
    eq.d2psidZ2 = lambda R, Z: q["pZZ"]
    eq.d2psidRdZ = lambda R, Z: q["pRZ"]
    eq.fpol = lambda p: f0 + fp0 * (p - q["p"])
    eq.fpolprime = lambda p: fp0
    return eq


# ---------------------------------------------------------------------------------------------
class _Nditer:
    """pure-Python stand-in for numpy.nditer([a, b, None]) on 0-d/1-d object inputs"""

    def __init__(self, ops):
        a, b = numpy.asarray(ops[0], dtype=object), numpy.asarray(ops[1], dtype=object)
        self.a, self.b = numpy.broadcast_arrays(a, b)
        self.out = numpy.empty(self.a.shape, dtype=object)
        self.operands = [self.a, self.b, self.out]

    def __enter__(self):
        return self

    def __exit__(self, *a):
        return False

    def __iter__(self):
        for idx in numpy.ndindex(self.a.shape):
            yield self.a[idx], self.b[idx], _Cell(self.out, idx)


class _Cell:
    def __init__(self, arr, idx):
        self.arr, self.idx = arr, idx

    def __setitem__(self, k, v):
        self.arr[self.idx] = v


def _mk_dct(nR, nZ):
    def body(env):
        d = dctm.DCT_2D.__new__(dctm.DCT_2D)
        # spacings 0.5 and 1.0 (dR != dZ) for every size, so that the float constants (pi*k/n/dR)**2 stay recognisable multiples of pi**2
        d.Rarray = 1.0 + 0.5 * numpy.arange(nR)
        d.Zarray = -1.0 + 1.0 * numpy.arange(nZ)
        d.nR, d.nZ = nR, nZ
        d.dR = d.Rarray[1] - d.Rarray[0]
        d.dZ = d.Zarray[1] - d.Zarray[0]
        d.Rmin, d.Rsize = d.Rarray[0], d.Rarray[-1] - d.Rarray[0]
        d.Zmin, d.Zsize = d.Zarray[0], d.Zarray[-1] - d.Zarray[0]
        coef = numpy.empty((nZ, nR), dtype=object if env.mode == "sym" else float)
        for j in range(nZ):
            for i in range(nR):
                coef[j, i] = env.real("c%d%d" % (j, i), lo=-9, hi=9)
        d.psiDCT = coef
        d.coef_R = (numpy.pi * numpy.arange(nR) / nR)[numpy.newaxis, :]
        d.coef_Z = (numpy.pi * numpy.arange(nZ) / nZ)[:, numpy.newaxis]
        R, Z = env.real("R", lo=1, hi=float(d.Rarray[-1])), env.real("Z", lo=-1, hi=float(d.Zarray[-1]))
        if env.mode == "sym":
            px = _DctProxy(PROXY)
            with patched((dctm, "numpy", px)):
                val = d(Jet2(R, 1, 0), Jet2(Z, 0, 1))
                val = Jet2.lift(val.item() if isinstance(val, numpy.ndarray) else val)
                got = {k: getattr(d, k)(R, Z) for k in ("ddR", "ddZ", "d2dR2", "d2dZ2", "d2dRdZ")}
                plain = d(R, Z)
            got = {k: (v.item() if isinstance(v, numpy.ndarray) else v) for k, v in got.items()}
            plain = plain.item() if isinstance(plain, numpy.ndarray) else plain
            env.add_uf_axioms()
            env.claim_eq("value(jet)=value(plain)", val.v, plain)
            env.claim_eq("ddR=d/dR of __call__", got["ddR"], val.dR)
            env.claim_eq("ddZ=d/dZ of __call__", got["ddZ"], val.dZ)
            env.claim_eq("d2dR2", got["d2dR2"], val.dRR)
            env.claim_eq("d2dZ2", got["d2dZ2"], val.dZZ)
            env.claim_eq("d2dRdZ", got["d2dRdZ"], val.dRZ)
            env.witness("evaluated")
        else:
            h = 1e-5
            R0, Z0 = float(R), float(Z)
            F = lambda a, b: float(d(a, b))  # noqa
            env.claim("ddR=d/dR of __call__", bool(env.close(float(d.ddR(R0, Z0)), (F(R0 + h, Z0) - F(R0 - h, Z0)) / (2 * h), 1e-5)))
            env.claim("ddZ=d/dZ of __call__", bool(env.close(float(d.ddZ(R0, Z0)), (F(R0, Z0 + h) - F(R0, Z0 - h)) / (2 * h), 1e-5)))
            env.claim("d2dR2", bool(env.close(float(d.d2dR2(R0, Z0)), (float(d.ddR(R0 + h, Z0)) - float(d.ddR(R0 - h, Z0))) / (2 * h), 1e-5)))
            env.claim("d2dZ2", bool(env.close(float(d.d2dZ2(R0, Z0)), (float(d.ddZ(R0, Z0 + h)) - float(d.ddZ(R0, Z0 - h))) / (2 * h), 1e-5)))
            env.claim("d2dRdZ", bool(env.close(float(d.d2dRdZ(R0, Z0)), (float(d.ddR(R0, Z0 + h)) - float(d.ddR(R0, Z0 - h))) / (2 * h), 1e-5)))
    return body


def _mk_dct_nodes(nR, nZ):
    """real DCT_2D.__init__ (transpose, normalisation, zero-mode halving, wavenumbers) followed by the real __call__ at every input node:
    the interpolant reproduces the input array.  scipy's dct is replaced by its documented definition (type II, unnormalised) on object arrays;
    the cosines at the nodes are doubles, so reproduction is claimed to 1e-9 for |psi| <= 9 (linear arithmetic in the psi values)"""
    def body(env):
        sym = env.mode == "sym"
        Rarr = 1.0 + 0.5 * numpy.arange(nR)
        Zarr = -1.0 + 1.0 * numpy.arange(nZ)
        psi = numpy.empty((nR, nZ), dtype=object if sym else float)      # indexed [R, Z] as geqdsk / TokamakEquilibrium pass it
        for i in range(nR):
            for j in range(nZ):
                psi[i, j] = env.real("psi_%d_%d" % (i, j), lo=-9, hi=9)

        def dct_def(x, axis=0):
            x = numpy.asarray(x, dtype=object if sym else float)
            N = x.shape[axis]
            out = numpy.empty(x.shape, dtype=x.dtype)
            for k in range(N):
                acc = 0
                for n in range(N):
                    term = numpy.take(x, n, axis=axis) * (2.0 * float(numpy.cos(numpy.pi * k * (2 * n + 1) / (2.0 * N))))
                    acc = acc + term
                if axis == 0:
                    out[k, :] = acc
                else:
                    out[:, k] = acc
            return out

        px = _DctProxy(PROXY) if sym else numpy
        with patched((dctm, "dct", dct_def), (dctm, "numpy", px)):
            d = dctm.DCT_2D(Rarr, Zarr, psi)
            env.witness("constructed")
            for i in range(nR):
                for j in range(nZ):
                    v = d(float(Rarr[i]), float(Zarr[j]))
                    v = v.item() if isinstance(v, numpy.ndarray) else v
                    diff = v - psi[i, j]
                    env.claim("interpolant_reproduces_input_at_node", (diff < 1e-9) & (diff > -1e-9) if sym else abs(diff) < 1e-9)
    return body


class _DctProxy:
    def __init__(self, base):
        self._b = base

    def __getattr__(self, k):
        return getattr(self._b, k)

    def nditer(self, ops):
        return _Nditer(ops)

    def array(self, x, *a, **k):
        if isinstance(x, (Jet2, SymReal)):
            out = numpy.empty((), dtype=object)
            out[()] = x
            return out
        return self._b.array(x, *a, **k)

    def sum(self, a):
        r = 0
        for x in numpy.asarray(a, dtype=object).flat:
            r = r + x
        return r


def ob_multilocation_handler(env):
    """Equilibrium.handleMultiLocationArray: applied per location, refuses mixed arguments, never touches a missing location"""
    calls = []

    class E:
        @eqm.Equilibrium.handleMultiLocationArray
        def fn(self, a, b):
            calls.append(getattr(a, "shape", None))
            return a + 2 * b

    with sym_numpy(env, mla_mod):
        A = mk_mla(env, 1, 1, "A", ("centre", "xlow"))
        B = mk_mla(env, 1, 1, "B", ("centre", "xlow"))
        r = E().fn(A, B)
    env.witness("called")
    env.claim_eq("centre", r.centre[0, 0], A.centre[0, 0] + 2 * B.centre[0, 0])
    env.claim_eq("xlow", r.xlow[1, 0], A.xlow[1, 0] + 2 * B.xlow[1, 0])
    x, y = env.real("x"), env.real("y")
    env.claim_eq("scalar_arguments_pass_through", E().fn(x, y), x + 2 * y)
    try:
        E().fn(A, y)
        env.claim("mixed_arguments_refused", False)
    except ValueError:
        env.claim("mixed_arguments_refused", True)


# ---------------------------------------------------------------------------------------------
def _circ(env, coefs):
    import hypnotoad.cases.circular as circ
    c = circ.CircularEquilibrium.__new__(circ.CircularEquilibrium)
    R0, B0 = env.real("R0", lo=1, hi=9), env.real("B0", lo=0.1, hi=9)
    c.user_options = types.SimpleNamespace(R0=R0, B0=B0, q_coefficients=coefs)
    return c, circ, R0, B0


def _mk_circular_profile(ncoef):
    """1-D profile functions of the circular equilibrium: dpsidr_r = d/dr psi_r (1 coefficient), d2psidr2_r = d/dr dpsidr_r, dqdr = d/dr q"""
    def body(env):
        from symx.jets import Jet1
        coefs = [env.real("q%d" % k, lo=0.5, hi=5) for k in range(ncoef)]
        c, circ, R0, B0 = _circ(env, coefs)
        t = env.real("t", lo=0.05, hi=0.9)
        r = R0 * 2 * t / (1 + t * t)  # 0 < r < R0, sqrt(1 - r^2/R0^2) = (1-t^2)/(1+t^2)
        if env.mode == "sym":
            env.sqrt_hints = [core.lift_real((1 - t * t) / (1 + t * t))]
            with patched((circ, "np", PROXY)):
                rj = Jet1(r, 1, 0)
                q = Jet1.lift(c.q(rj))
                dp = Jet1.lift(c.dpsidr_r(rj))
                env.claim_eq("dqdr=d/dr_q", c.dqdr(r), q.d)
                env.claim_eq("d2psidr2_r=d/dr_dpsidr_r", c.d2psidr2_r(r), dp.d)
                if ncoef == 1:
                    ps = Jet1.lift(c.psi_r(rj))
                    env.claim_eq("dpsidr_r=d/dr_psi_r", c.dpsidr_r(r), ps.d)
                    env.claim_eq("psi_r(0)=0", c.psi_r(0 * r), 0)
        else:
            h = 1e-6
            env.claim("dqdr=d/dr_q", bool(env.close(c.dqdr(r), (c.q(r + h) - c.q(r - h)) / (2 * h), 1e-5)))
            env.claim("d2psidr2_r=d/dr_dpsidr_r", bool(env.close(c.d2psidr2_r(r), (c.dpsidr_r(r + h) - c.dpsidr_r(r - h)) / (2 * h), 1e-5)))
            if ncoef == 1:
                env.claim("dpsidr_r=d/dr_psi_r", bool(env.close(c.dpsidr_r(r), (c.psi_r(r + h) - c.psi_r(r - h)) / (2 * h), 1e-5)))
        env.witness("evaluated")
    return body


def ob_circular_2d(env):
    """R,Z functions of the circular equilibrium vs AD of psi(R,Z) = P(r(R,Z)) with P', P'' symbolic"""
    c, circ, R0, B0 = _circ(env, [1.0])
    p1, p2 = env.real("dpsidr", lo=0.1, hi=9), env.real("d2psidr2", lo=-9, hi=9)
    c._dpsidr_r = lambda x: p1
    c._d2psidr2_r = lambda x: p2
    rho = env.real("rho", lo=0.1, hi=0.9)
    u = env.real("u", lo=-3, hi=3)
    cs, sn = (1 - u * u) / (1 + u * u), 2 * u / (1 + u * u)
    R, Z = R0 + rho * cs, rho * sn
    if env.mode == "sym":
        env.sqrt_hints = [core.lift_real(rho)]
        with patched((circ, "np", PROXY)):
            rj = Jet2.lift(c.r(Jet2(R, 1, 0), Jet2(Z, 0, 1)))
            env.claim_eq("r=rho", rj.v, rho)
            psi = rj._chain(0 * rho, p1, p2)  # psi = P(r): first and second derivatives through the chain rule
            g2 = psi.dR * psi.dR + psi.dZ * psi.dZ
            env.claim_eq("f_R=psi_R/|grad psi|^2", c.f_R(R, Z), psi.dR / g2)
            env.claim_eq("f_Z=psi_Z/|grad psi|^2", c.f_Z(R, Z), psi.dZ / g2)
            env.claim_eq("Bp_R=psi_Z/R", c.Bp_R(R, Z), psi.dZ / R)
            env.claim_eq("Bp_Z=-psi_R/R", c.Bp_Z(R, Z), -psi.dR / R)
            env.claim_eq("d2psidR2", c.d2psidR2(R, Z), psi.dRR)
            env.claim_eq("d2psidZ2", c.d2psidZ2(R, Z), psi.dZZ)
            env.claim_eq("d2psidRdZ", c.d2psidRdZ(R, Z), psi.dRZ)
            env.claim_eq("drdR", c.drdR(R, Z), rj.dR)
            env.claim_eq("drdZ", c.drdZ(R, Z), rj.dZ)
        env.witness("evaluated")
    else:
        # concrete: P(r) = p1*(r-rho) + p2/2*(r-rho)^2 around the point
        P = lambda x: p1 * (x - rho) + 0.5 * p2 * (x - rho) ** 2  # noqa
        psi = lambda a, b: P(float(c.r(a, b)))  # noqa
        h = 1e-5
        dR = (psi(R + h, Z) - psi(R - h, Z)) / (2 * h)
        dZ = (psi(R, Z + h) - psi(R, Z - h)) / (2 * h)
        env.claim("Bp_R=psi_Z/R", bool(env.close(c.Bp_R(R, Z), dZ / R, 1e-5)))
        env.claim("Bp_Z=-psi_R/R", bool(env.close(c.Bp_Z(R, Z), -dR / R, 1e-5)))
        env.claim("f_R=psi_R/|grad psi|^2", bool(env.close(c.f_R(R, Z), dR / (dR * dR + dZ * dZ), 1e-5)))
        env.claim("d2psidR2", bool(env.close(c.d2psidR2(R, Z), (psi(R + h, Z) - 2 * psi(R, Z) + psi(R - h, Z)) / h ** 2, 1e-3)))
        env.claim("d2psidZ2", bool(env.close(c.d2psidZ2(R, Z), (psi(R, Z + h) - 2 * psi(R, Z) + psi(R, Z - h)) / h ** 2, 1e-3)))
        env.claim("d2psidRdZ", bool(env.close(c.d2psidRdZ(R, Z), (psi(R + h, Z + h) - psi(R + h, Z - h) - psi(R - h, Z + h) + psi(R - h, Z - h)) / (4 * h * h), 1e-3)))


ENCH = ["hypnotoad.core.equilibrium:Equilibrium." + n for n in
        ("Bzeta", "B2", "dBzetadR", "dBzetadZ", "dBRdR", "dBRdZ", "dBZdR", "dBZdZ", "dB2dR", "dB2dZ", "dBdR", "dBdZ")]
OBLIGATIONS.append(Ob("spline_closures", ob_closures, tier="quick", family="closures", encodes=["hypnotoad.core.equilibrium:Equilibrium.magneticFunctionsFromGrid"],
                      desc="psi, f_R, f_Z, Bp_R, Bp_Z, d2psi* closures are the claimed combinations of the interpolant's derivatives",
                      stubs=["RectBivariateSpline -> table of psi and its partials"], bounds="point inside the box"))
OBLIGATIONS.append(Ob("spline_closure_arguments", ob_closure_arguments, tier="quick", family="closures", encodes=["hypnotoad.core.equilibrium:Equilibrium.magneticFunctionsFromGrid"],
                      desc="inside the grid box every closure evaluates the interpolant at exactly the point it was given (real clip semantics, symbolic grid extent)",
                      stubs=["RectBivariateSpline -> table of psi and its partials, arguments recorded", "numpy.clip -> scalar clip"], bounds="grid extent and point symbolic, point inside the box"))
OBLIGATIONS.append(Ob("helper_chain_vs_AD", ob_helper_chain, tier="quick", family="helper chain", encodes=ENCH + ["hypnotoad.core.equilibrium:Equilibrium.magneticFunctionsFromGrid"],
                      desc="dBRdR..dB2dZ equal the AD derivatives of the real Bp_R, Bp_Z, Bzeta, B2; div B = 0; dB/dR = dB2/dR/(2B)",
                      stubs=["RectBivariateSpline -> jets", "fpol, fpolprime -> symbols (non-constant fpol)"], bounds="R>=1; all derivatives of psi free"))
for (_a, _b) in ((2, 2), (3, 2), (2, 3), (3, 3), (4, 3), (3, 4), (4, 4), (5, 4)):
    OBLIGATIONS.append(Ob("dct_%dx%d_derivative_methods" % (_a, _b), _mk_dct(_a, _b), tier="quick" if _a + _b <= 6 else "thorough", family="DCT",
                          encodes=["hypnotoad.utils.dct_interpolation:DCT_2D.__call__", "hypnotoad.utils.dct_interpolation:DCT_2D.ddR", "hypnotoad.utils.dct_interpolation:DCT_2D.ddZ",
                                   "hypnotoad.utils.dct_interpolation:DCT_2D.d2dR2", "hypnotoad.utils.dct_interpolation:DCT_2D.d2dZ2", "hypnotoad.utils.dct_interpolation:DCT_2D.d2dRdZ"],
                          desc="the five derivative methods equal the AD derivatives of __call__ for symbolic DCT coefficients",
                          stubs=["numpy.nditer -> pure-Python iteration", "sin/cos uninterpreted"], bounds="%dx%d coefficients, scalar argument" % (_a, _b)))
for (_a, _b) in ((2, 2), (3, 2), (2, 3), (4, 3)):
    OBLIGATIONS.append(Ob("dct_node_reproduction_%dx%d" % (_a, _b), _mk_dct_nodes(_a, _b), tier="quick", family="DCT",
                          encodes=["hypnotoad.utils.dct_interpolation:DCT_2D.__init__", "hypnotoad.utils.dct_interpolation:DCT_2D.__call__"],
                          desc="constructor + evaluation: the dct interpolant returns the input value at every input node (to 1e-9 for |psi| <= 9)",
                          stubs=["scipy.fftpack.dct -> its documented type-II definition", "numpy.nditer -> pure-Python iteration"],
                          bounds="%dx%d input array (R x Z), values symbolic in [-9, 9]" % (_a, _b)))
OBLIGATIONS.append(Ob("handleMultiLocationArray", ob_multilocation_handler, tier="quick", family="dispatch",
                      encodes=["hypnotoad.core.equilibrium:Equilibrium.handleMultiLocationArray"],
                      desc="per-location application, scalar pass-through, mixed arguments refused", bounds="1x1 arrays, two locations present"))

ENCC = ["hypnotoad.cases.circular:CircularEquilibrium." + n for n in ("q", "dqdr", "dpsidr_r", "d2psidr2_r", "psi_r", "r", "drdR", "drdZ", "f_R", "f_Z", "Bp_R", "Bp_Z",
                                                                       "d2psidR2", "d2psidZ2", "d2psidRdZ")]
for _n in (1, 2):
    OBLIGATIONS.append(Ob("circular_profile_derivatives_%dcoef" % _n, _mk_circular_profile(_n), tier="quick", family="circular analytic", encodes=ENCC[:5],
                          desc="dqdr, d2psidr2_r (and dpsidr_r for one q coefficient) are the r-derivatives of q, dpsidr_r, psi_r", bounds="0 < r < R0 (rational parametrisation); q coefficients in [0.5,5]"))
OBLIGATIONS.append(Ob("circular_RZ_functions_vs_AD", ob_circular_2d, tier="quick", family="circular analytic", encodes=ENCC[5:],
                      desc="f_R, f_Z, Bp_R, Bp_Z, d2psidR2, d2psidZ2, d2psidRdZ, drdR, drdZ equal the AD derivatives of psi(R,Z) = P(r(R,Z))",
                      stubs=["dpsi/dr, d2psi/dr2 at the point -> symbols"], bounds="point at minor radius rho in (0.1,0.9), any poloidal angle but pi"))
