"""C16 - equivariance under reflection and field reversal: (1) mirror symmetry of the real topology descriptors / index code (LIA over symbolic
sizes): LSN <-> USN, LDN <-> UDN, CDN self-mirror; (2) sign and 2*pi-scaling equivariance of the real geometry2 + calcMetric closed forms."""
import types
from fractions import Fraction

import numpy
import z3

from symx import core
from symx.core import SymInt, SymBool
from symx.runner import registry, Ob
from harness.common import sym_numpy
import harness.c08 as c08
import harness.c02 as c02

OBLIGATIONS, obligation = registry()

META = {
    "explanation": "Two layers on the real code. Descriptors: the lower and the upper variant are built in the same run with shared symbolic sizes (per-leg options mirrored) and "
                   "compared region by region under the relabelling lower<->upper with reversed y order. Closed forms: the real geometry2+calcMetric are run twice on the same symbolic "
                   "geometry with psi -> -psi (Bp and bpsign flip), fpol -> -fpol (Bt flips) or psi -> psi/k, and every output is compared with the transformation expected from its "
                   "tensor character (components with an odd number of x indices flip with psi, those with an odd number of z indices flip with Bt; homogeneous scaling with k).",
    "bounds": "all region sizes symbolic >= 1, guards 0 and 2; metric inputs all real (as C02); k > 0 symbolic",
    "out": "equality of the actual R,Z positions of mirrored grids and 'grid positions unchanged' under field reversal (numerics: needs the pipeline); components whose scaling with k is not homogeneous (g33, g_22)",
    "assumptions": ["as C02 and C08"],
}

zi = c08.zi


def _mirror_name(n):
    return n.replace("lower", "TMP").replace("upper", "lower").replace("TMP", "upper")


def _mk_mirror(kind_a, kind_b, guards):
    def body(env):
        sym = env.mode == "sym"
        capa, capb = {}, {}
        # distinct private-flux limits for the lower and the upper region, exchanged in the mirrored case
        eqa, ma, ta, sa = c08.build(env, kind_a, guards, capture=capa, pf=(0.95, 0.85))
        eqb, mb, tb, sb = c08.build(env, kind_b, guards, capture=capb, pf=(0.85, 0.95) if kind_a != kind_b else (0.95, 0.85))
        env.witness("both_built")
        # mirrored per-leg settings
        pairs = [("ny_inner_lower_divertor", "ny_inner_upper_divertor"), ("ny_outer_lower_divertor", "ny_outer_upper_divertor")]
        for a, b in pairs:
            env.assume(SymBool(zi(sa[a]) == zi(sa[b])) if sym else (sa[a] == sa[b]), "mirrored leg sizes")
        ZB = (lambda t: SymBool(t)) if sym else (lambda t: bool(z3.is_true(z3.simplify(t))))
        ra, rb = list(eqa.regions.items()), list(eqb.regions.items())
        env.claim("same_number_of_regions", len(ra) == len(rb))
        single = kind_a in ("lsn", "usn")
        if single:
            order_b = [_mirror_name(n) for n, _ in ra][::-1]  # whole grid reversed
        else:
            names = [n for n, _ in ra]
            order_b = [_mirror_name(n) for n in names[:3]][::-1] + [_mirror_name(n) for n in names[3:]][::-1]  # inner and outer block reversed in place
        env.claim("mirrored_region_order", [n for n, _ in rb] == order_b)
        byname_a = dict(ra)
        nya, nyb = zi(ma.ny), zi(mb.ny)
        env.claim("same_total_ny", ZB(nya == nyb))
        env.claim("same_nx", ZB(zi(ma.nx) == zi(mb.nx)))
        for nb, regb in rb:
            rega = byname_a[_mirror_name(nb)]
            env.claim("mirror_has_equal_ny:" + nb, ZB(zi(regb.ny_noguards) == zi(rega.ny_noguards)))
            env.claim("mirror_has_equal_segment_sizes:" + nb, ZB(z3.And(*[zi(x) == zi(y) for x, y in zip(regb.nx, rega.nx)])) and len(regb.nx) == len(rega.nx))
            env.claim("mirror_swaps_wall_and_xpoint_ends:" + nb, regb.kind == ".".join(rega.kind.split(".")[::-1]))
            env.claim("mirror_swaps_xpoint_flags:" + nb, [x is not None for x in regb.xPointsAtStart] == [x is not None for x in rega.xPointsAtEnd]
                      and [x is not None for x in regb.xPointsAtEnd] == [x is not None for x in rega.xPointsAtStart])
            for i in range(regb.nSegments):
                cb, ca = regb.connections[i], rega.connections[i]
                mir = lambda c: None if c is None else (_mirror_name(c[0]), c[1])  # noqa
                env.claim("mirror_swaps_upper_and_lower_connections:" + nb, cb["upper"] == mir(ca["lower"]) and cb["lower"] == mir(ca["upper"]))
                env.claim("mirror_keeps_radial_connections:" + nb, cb["inner"] == mir(ca["inner"]) and cb["outer"] == mir(ca["outer"]))
        # radial segment descriptors (limits and separatrix gradients handed to the radial grid function) are mirror images too
        if kind_a != kind_b:
            sega, segb = capa["segments"], capb["segments"]
            env.claim("same_segment_names_up_to_mirror", sorted(_mirror_name(n) for n in sega) == sorted(segb))
            for n, da in sega.items():
                db = segb.get(_mirror_name(n))
                if db is None:
                    continue
                for key in ("psi_start", "psi_end", "grad_start", "grad_end"):
                    env.claim("segment_has_same_keys:%s" % n, (key in da) == (key in db))
                    if key in da and key in db:
                        env.claim_eq("mirrored_segment_%s:%s" % (key, n), db[key], da[key])
                env.claim("mirrored_segment_nx:%s" % n, ZB(zi(da["nx"]) == zi(db["nx"])))
        # written integers
        g = guards
        nyng = zi(ma.ny_noguards)
        A = {k: zi(v) for k, v in ta.items()}
        B = {k: zi(v) for k, v in tb.items()}
        if single:
            env.claim("ixseps_equal", ZB(z3.And(A["ixseps1"] == B["ixseps1"], A["ixseps2"] == B["ixseps2"])))
            env.claim("branch_cuts_mirrored", ZB(z3.And(B["jyseps1_1"] == nyng - 2 - A["jyseps2_2"], B["jyseps2_2"] == nyng - 2 - A["jyseps1_1"])))
        else:
            env.claim("ixseps_exchanged", ZB(z3.And(A["ixseps1"] == B["ixseps2"], A["ixseps2"] == B["ixseps1"])))
            env.claim("ny_inner_equal", ZB(A["ny_inner"] == B["ny_inner"]))
            ni = A["ny_inner"]
            env.claim("inner_block_cuts_mirrored", ZB(z3.And(B["jyseps1_1"] == ni - 2 - A["jyseps2_1"], B["jyseps2_1"] == ni - 2 - A["jyseps1_1"])))
            env.claim("outer_block_cuts_mirrored", ZB(z3.And(B["jyseps1_2"] == ni + (nyng - 2 - A["jyseps2_2"]), B["jyseps2_2"] == ni + (nyng - 2 - A["jyseps1_2"]))))
    return body


def _mk_psi_reversal(kind, guards=0):
    """the same topology with psi -> -psi: identical regions, sizes and connections; every radial segment descriptor (limits and the
    separatrix gradients handed to the radial grid function) is negated"""
    def body(env):
        sym = env.mode == "sym"
        capa, capb = {}, {}
        eqa, ma, ta, sa = c08.build(env, kind, guards, capture=capa, pf=(0.95, 0.85))
        eqb, mb, tb, sb = c08.build(env, kind, guards, capture=capb, pf=(0.95, 0.85), psi_sign=-1.0)
        env.witness("both_built")
        ZB = (lambda t: SymBool(t)) if sym else (lambda t: bool(z3.is_true(z3.simplify(t))))
        env.claim("same_regions_in_same_order", list(eqa.regions) == list(eqb.regions))
        for n, rega in eqa.regions.items():
            regb = eqb.regions[n]
            env.claim("same_kind_and_connections:" + n, rega.kind == regb.kind and rega.connections == regb.connections)
            env.claim("same_sizes:" + n, ZB(z3.And(zi(rega.ny_noguards) == zi(regb.ny_noguards), *[zi(x) == zi(y) for x, y in zip(rega.nx, regb.nx)])))
        for k in ta:
            env.claim("same_topology_integers", ZB(zi(ta[k]) == zi(tb[k])))
        sega, segb = capa["segments"], capb["segments"]
        env.claim("same_segment_names", sorted(sega) == sorted(segb))
        for n, da in sega.items():
            db = segb.get(n)
            if db is None:
                continue
            for key in ("psi_start", "psi_end", "grad_start", "grad_end"):
                env.claim("segment_has_same_keys:%s" % n, (key in da) == (key in db))
                if key in da and key in db:
                    env.claim_eq("negated_segment_%s:%s" % (key, n), db[key], -da[key])
            env.claim("same_segment_nx:%s" % n, ZB(zi(da["nx"]) == zi(db["nx"])))
    return body


# ---------------------------------------------------------------------------------------------
NAMES_UP = ["g11", "g22", "g33", "g12", "g13", "g23"]
NAMES_DN = ["g_11", "g_22", "g_33", "g_12", "g_13", "g_23"]
X_ODD = {"g12", "g13", "g_12", "g_13", "J", "dphidy", "Bpxy"}          # one x index (J = hy/Bp carries the orientation of x)
Z_ODD = {"g13", "g23", "g_13", "g_23", "dphidy", "Btxy"}               # one z index / proportional to Bt
K_EXP = {"g11": -2, "g_11": 2, "J": 1, "dphidy": 1, "g23": 1, "g_23": 1, "g12": -1, "g_12": 1, "g22": 0, "g_33": 0, "g13": 0, "Bpxy": -1}


def _run(env, orthogonal, bpsign, cs, **kw):
    r, hy, bpabs = c02.build(env, orthogonal, bpsign, cs, **kw)
    ok = c02.run_metric(env, r)
    return r, ok


def _mk_sign(orthogonal, what):
    def body(env):
        with sym_numpy(env):
            if what == "reverse_current":
                # psi -> -psi on the same grid points: Bp -> -Bp, bpsign -> -bpsign, grad(psi) reversed; beta is whatever the REAL calcBeta makes of that
                if orthogonal:
                    r1, ok1 = _run(env, orthogonal, 1.0, 1.0)
                    r2, ok2 = _run(env, orthogonal, -1.0, -1.0)
                else:
                    r1, ok1 = _run(env, orthogonal, 1.0, 1.0, geometry={"gsign": 1.0, "dsign": 1.0})
                    r2, ok2 = _run(env, orthogonal, -1.0, -1.0, geometry={"gsign": -1.0, "share": r1.geom})
                odd = X_ODD
            else:
                r1, ok1 = _run(env, orthogonal, 1.0, 1.0)
                r2, ok2 = _run(env, orthogonal, 1.0, 1.0, bt_sign=-1.0)
                odd = Z_ODD
        if not (ok1 and ok2):
            return
        env.witness("both_evaluated")
        for n in NAMES_UP + NAMES_DN + ["J", "dphidy", "Bpxy", "Btxy"]:
            a, b = c02.G(r1, n, "centre", (0, 0)), c02.G(r2, n, "centre", (0, 0))
            if n in odd:
                env.claim_eq("%s_flips_sign" % n, b, -a)
            else:
                env.claim_eq("%s_unchanged" % n, b, a)
    return body


def _mk_scale(orthogonal, names=None):
    def body(env):
        # orthogonal branch: k symbolic; non-orthogonal branch: one fixed rational k (the option divides by the constant 2*pi; with a symbolic k on top of
        # the symbolic stencil the normal forms of this branch cost 5-10 minutes per output and the time varied by a factor of two between runs)
        k = env.real("k", lo=1.5, hi=8) if orthogonal else Fraction(7, 2)
        if env.mode == "sym":
            env.sqrt_hints = []
        with sym_numpy(env):
            r1, ok1 = _run(env, orthogonal, 1.0, 1.0)
            r2, ok2 = _run(env, orthogonal, 1.0, 1.0, psi_div=k)
        if not (ok1 and ok2):
            return
        env.witness("both_evaluated")
        for n, e in K_EXP.items():
            if names is not None and n not in names:
                continue
            a, b = c02.G(r1, n, "centre", (0, 0)), c02.G(r2, n, "centre", (0, 0))
            env.claim_eq("%s_scales_as_k^%d" % (n, e), b, a * (k ** e if e >= 0 else 1 / k ** (-e)))
    return body


ENC8 = c08.ENC
for (_a, _b) in (("lsn", "usn"), ("ldn", "udn"), ("cdn", "cdn")):
    for _g in (0, 2):
        OBLIGATIONS.append(Ob("descriptor_mirror_%s_%s_guards%d" % (_a, _b, _g), _mk_mirror(_a, _b, _g), tier="quick" if _g == 0 else "thorough", family="descriptor mirror",
                              encodes=ENC8, desc="the upper variant is the lower variant with lower<->upper relabelled, y order reversed (per inner/outer block for double null), "
                              "connections and X-point flags mirrored, ixseps exchanged and branch cuts mirrored", stubs=["findLegs etc. as C08"],
                              bounds="all sizes symbolic >= 1; mirrored leg sizes equal; y_boundary_guards=%d" % _g))
for _k in ("lsn", "usn", "cdn", "ldn", "udn"):
    OBLIGATIONS.append(Ob("descriptor_psi_reversal_%s" % _k, _mk_psi_reversal(_k), tier="quick", family="field reversal",
                          encodes=ENC8, desc="psi -> -psi (psi decreasing outwards): same regions, sizes, connections and topology integers; radial segment limits and separatrix "
                          "gradients negated", stubs=["findLegs etc. as C08"], bounds="all sizes symbolic >= 1; y_boundary_guards=0"))
for _o in (True, False):
    for _w in ("reverse_current", "reverse_Bt"):
        OBLIGATIONS.append(Ob("metric_%s_%s" % (_w, "orth" if _o else "nonorth"), _mk_sign(_o, _w), tier="quick", family="field reversal",
                              encodes=["hypnotoad.core.mesh:MeshRegion.calcMetric", "hypnotoad.core.mesh:MeshRegion.geometry2"],
                              desc="each metric output is invariant or exactly negated according to its tensor character", stubs=["as C02"], bounds="all reals"))
    if _o:
        OBLIGATIONS.append(Ob("metric_psi_divide_twopi_orth", _mk_scale(True), tier="quick", wall_s=1200, family="field reversal",
                              encodes=["hypnotoad.core.mesh:MeshRegion.calcMetric", "hypnotoad.core.mesh:MeshRegion.geometry2"],
                              desc="homogeneous outputs scale with the documented power of k when psi -> psi/k", stubs=["as C02"], bounds="k in [1.5, 8]"))
    else:
        # one obligation per output: each rational-function identity of the non-orthogonal branch costs minutes of normal-form arithmetic, and
        # obligations (not claims) are what runs in parallel
        for _n in K_EXP:
            OBLIGATIONS.append(Ob("metric_psi_divide_twopi_nonorth_" + _n, _mk_scale(False, names=(_n,)), tier="thorough", wall_s=2400, family="field reversal",
                                  encodes=["hypnotoad.core.mesh:MeshRegion.calcMetric", "hypnotoad.core.mesh:MeshRegion.geometry2"],
                                  desc="%s scales with the documented power of k when psi -> psi/k (non-orthogonal branch)" % _n, stubs=["as C02"], bounds="k = 7/2 (fixed; symbolic k in the orthogonal variant)"))

import harness.c03 as _c03  # noqa: E402
for _rc in (0, 1):
    for _d in (0, 1):
        for _rb in (0, 1):
            OBLIGATIONS.append(Ob("constructor_option_signs_rc%d_2pi%d_rbt%d" % (_rc, _d, _rb), _c03._mk_signs(bool(_rc), bool(_d), bool(_rb)), tier="quick", family="field reversal",
                                  encodes=["hypnotoad.cases.tokamak:TokamakEquilibrium.__init__"],
                                  desc="reverse_current / psi_divide_twopi / reverse_Bt act on psi2D, psi1D, the gfile psi scalars and fpol consistently: only signs and the 2*pi factor "
                                       "change (shared with C03)", bounds="psi2D 2x2, profiles of length 3, all values symbolic"))
            OBLIGATIONS.append(Ob("constructor_option_signs_rc%d_2pi%d_rbt%d_from_arrays" % (_rc, _d, _rb), _c03._mk_signs(bool(_rc), bool(_d), bool(_rb), gfile=False),
                                  tier="quick", family="field reversal", encodes=["hypnotoad.cases.tokamak:TokamakEquilibrium.__init__"],
                                  desc="the same for an equilibrium built directly from arrays (no gfile psi scalars)", bounds="psi2D 2x2, profiles of length 3, all values symbolic"))


def _sqrt_mirror(case):
    def body(env):
        import harness.c10 as m   # resolved at call time
        return m._mk_sqrt_mirror(case)(env)
    return body


for _case in ("X.wall", "wall.wall", "X.X", "one_end"):
    OBLIGATIONS.append(Ob("sqrt_spacing_mirror_" + _case, _sqrt_mirror(_case), tier="quick", family="mirror",
                          encodes=["hypnotoad.core.equilibrium:EquilibriumRegion.getSqrtPoloidalDistanceFunc"],
                          desc="the sqrt spacing function of a leg and that of its mirror image (end parameters exchanged) are mirror images, s_mirror(N-i) = L - s(i), also in "
                               "the guard-cell range beyond a wall end (exponential continuation)",
                          bounds="all parameters symbolic; index inside (0.01..0.99 N) or 0.01..4 beyond a wall end", max_paths=60))


def _monotonic_mirror(env):
    import harness.c10 as m   # resolved at call time
    return m.ob_monotonic_mirror(env)


OBLIGATIONS.append(Ob("monotonic_spacing_mirror_convex", _monotonic_mirror, tier="quick", family="mirror",
                      encodes=["hypnotoad.core.equilibrium:EquilibriumRegion.getMonotonicPoloidalDistanceFunc"],
                      desc="exchanging d_lower and d_upper gives the mirror-image monotonic spacing function (convex case), also in the guard-cell range beyond both ends",
                      bounds="all parameters symbolic; convex case only (the concave case depends on brentq roots)", max_paths=20))


def ob_cap_bp_reversal(env):
    """cap_Bp_ylow_xpoint: reversing the sign of psi (Bp -> -Bp everywhere) only changes the sign of the capped Bpxy.ylow, not its magnitude"""
    import hypnotoad.core.mesh as meshm
    from harness.common import stub_region, mk_mla, sym_numpy as _sn, mla_mod, mesh_mod
    sym = env.mode == "sym"
    nx, ny = 2, 2
    corner = env.choose(4)        # which of the four X-point markers is set
    env.tag("xpoint_marker=%d" % corner)
    mags = {}
    with _sn(env, mla_mod, mesh_mod):
        outs = []
        for sgn in (1.0, -1.0):
            regs = []
            for k in range(3):            # the region, its lower and its upper neighbour
                r = stub_region(nx, ny, True)
                r.Bpxy = meshm.MultiLocationArray(nx, ny)
                for loc in ("centre", "ylow"):
                    arr = getattr(r.Bpxy, loc)
                    for idx in numpy.ndindex(arr.shape):
                        key = (k, loc) + idx
                        if key not in mags:
                            mags[key] = env.real("absBp_%d_%s_%d_%d" % key, lo=0.01, hi=9)
                        arr[idx] = sgn * mags[key]
                regs.append(r)
            me, lower, upper = regs
            me.getNeighbour = lambda face, lower=lower, upper=upper: {"lower": lower, "upper": upper}[face]
            X = "X"
            me.equilibriumRegion = types.SimpleNamespace(xPointsAtStart=[X if corner == 0 else None, X if corner == 1 else None, None],
                                                        xPointsAtEnd=[X if corner == 2 else None, X if corner == 3 else None, None])
            me.radialIndex = 0
            me.bpsign = sgn      # set by geometry1 before the cap is applied: the sign of Bp
            me.capBpYlowXpoint()
            outs.append(me.Bpxy.ylow.copy())
    env.witness("capped_both_signs")
    a, b = outs
    for idx in numpy.ndindex(a.shape):
        env.claim_eq("capped_Bp_ylow_only_changes_sign_under_psi_reversal", b[idx], -a[idx])


OBLIGATIONS.append(Ob("cap_Bp_ylow_xpoint_under_psi_reversal", ob_cap_bp_reversal, tier="quick", family="field reversal",
                      encodes=["hypnotoad.core.mesh:MeshRegion.capBpYlowXpoint"],
                      desc="the optional cap of Bpxy.ylow next to an X-point acts on the magnitude: with Bp -> -Bp the capped values are exactly negated",
                      bounds="nx=2, ny=2, symbolic magnitudes, each of the four X-point markers in turn", max_paths=400))


def _spacing_wiring(env):
    import harness.c10 as m   # resolved at call time
    return m.ob_spacing_wiring(env)


OBLIGATIONS.append(Ob("per_leg_spacing_options_mirror", _spacing_wiring, tier="quick", family="descriptor mirror",
                      desc="each divertor leg takes the target spacing options of its OWN leg name (inner/outer x lower/upper), X-point ends share the X-point options: "
                           "exchanging lower and upper options mirrors the spacing (shared with C10)",
                      encodes=["hypnotoad.core.equilibrium:EquilibriumRegion.getTargetParameter", "hypnotoad.core.equilibrium:EquilibriumRegion.getSpacings"],
                      bounds="6 region name/kind combinations, all option values symbolic"))
