"""C07 - curvature outputs are the contravariant components of curl(b/B): real MeshRegion.calc_curvature on a stub region whose
equilibrium is the real helper chain over a table interpolant; reference = curl of (B/B^2) computed by forward-mode AD of the real
Bp_R, Bp_Z, Bzeta, B2."""
import types

import numpy
import z3

from symx import core
from symx.jets import Jet2
from symx.runner import registry, Ob
from harness.common import sym_numpy, mk_mla, mla_from, stub_region, MultiLocationArray, mesh_mod, mla_mod
from harness.fieldstub import PsiTable, make_equilibrium, field_numpy

import hypnotoad.core.equilibrium as eqm

OBLIGATIONS, obligation = registry()

META = {
    "explanation": "Real calc_curvature (curvature_type='curl(b/B)', orthogonal and non-orthogonal) on a 1x1 stub region; the equilibrium is the real "
                   "helper chain on a symbolic table of psi derivatives with non-constant fpol; the reference curl(b/B) is obtained by AD of the real value functions, "
                   "then projected on grad x = grad psi, grad y and grad z written from the property's definitions.",
    "bounds": "all of psi's first and second partial derivatives, fpol, fpol', R>=1, hy>0, beta (|t|<=3/4 param.) free reals; both signs of Bp; I = 0 and I free",
    "out": "the size of the discretisation error of the 'x-y derivatives' formulation (its algebra with exact derivatives and its DDX/DDY stencils are decided); curvature_smoothing",
    "assumptions": ["|Bpxy| = |grad psi|/R and Btxy = fpol/R at the point (what geometry1 computes; decided under C02/C03); grad psi direction by rational parametrisation",
                    "RectBivariateSpline contract as in C18", "reals not doubles"],
}

LOCS = ("centre", "xlow", "ylow", "corners")


def _same(env, nx, ny, val):
    m = MultiLocationArray(nx, ny)
    for loc in LOCS:
        getattr(m, loc)[...] = val
    return m


def _mk(orthogonal, bpsign, free_I):
    def body(env):
        tab = PsiTable(env)
        R, Z = env.real("R", lo=1, hi=99), env.real("Z", lo=-99, hi=99)
        f, fp = env.real("fpol"), env.real("fpolprime")
        hy = env.real("hy", pos=True)
        # grad psi = g*(c, s) with a rationally parametrised unit vector, so that |Bp| = g/R needs no square root and no equality assumption
        g = env.real("gradpsi_mag", lo=0.1, hi=9)
        u = env.real("gradpsi_dir", lo=-3, hi=3)
        tab.pR, tab.pZ = g * (1 - u * u) / (1 + u * u), g * 2 * u / (1 + u * u)
        bpabs = g / R
        Bxy = env.real("Bxy", pos=True)
        Bp = bpsign * bpabs
        Ival = env.real("I") if free_I else 0.0
        beta = None
        if not orthogonal:
            # beta comes from the REAL calcBeta on a grid stencil with a symbolic radial displacement (convention-free); grad(psi) direction as above
            import harness.c02 as c02
            with sym_numpy(env, mla_mod, mesh_mod):
                beta = c02.real_beta_at_point(env, (tab.pR / g, tab.pZ / g), g, bpsign)
            tanb = beta["tanb"]
        else:
            tanb = 0
        with sym_numpy(env, mla_mod, mesh_mod):
            e0 = make_equilibrium(env, tab, jets=False)
            e0.fpol = lambda psi: f
            e0.fpolprime = lambda psi: fp
            r = stub_region(1, 1, orthogonal)
            r.meshParent = types.SimpleNamespace(equilibrium=e0)
            r.bpsign = bpsign
            r.Rxy, r.Zxy = _same(env, 1, 1, R), _same(env, 1, 1, Z)
            r.Bpxy, r.Btxy, r.Bxy, r.hy = _same(env, 1, 1, Bp), _same(env, 1, 1, f / R), _same(env, 1, 1, Bxy), _same(env, 1, 1, hy)
            r.I = _same(env, 1, 1, Ival)
            if not orthogonal:
                r.tanBeta = _same(env, 1, 1, tanb)
            with field_numpy(env, e0):
                r.calc_curvature()
        env.witness("calc_curvature_returned")
        got = {k: getattr(r, k).centre[0, 0] for k in ("curl_bOverB_x", "curl_bOverB_y", "curl_bOverB_z", "bxcvx", "bxcvy", "bxcvz")}
        # ---- reference by AD of the real value functions
        if env.mode == "sym":
            e1 = make_equilibrium(env, tab, jets=True)
            e1.fpol = lambda psi: Jet2(f, fp * Jet2.lift(psi).dR, fp * Jet2.lift(psi).dZ)
            Rj, Zj = Jet2(R, 1, 0), Jet2(Z, 0, 1)
            with field_numpy(env, e1):
                BR, BZ, Bz, B2 = e1.Bp_R(Rj, Zj), e1.Bp_Z(Rj, Zj), e1.Bzeta(Rj, Zj), e1.B2(Rj, Zj)
            env.assume(B2.v > 0, "B != 0")
            curl_R = -(Bz / B2).dZ
            curl_Z = (Rj * Bz / B2).dR / R
            curl_zeta = (BR / B2).dZ - (BZ / B2).dR
            BRv, BZv = BR.v, BZ.v
        else:
            curl_R, curl_Z, curl_zeta, BRv, BZv = _fd_reference(env, tab, float(R), float(Z), float(f), float(fp))
        cx = curl_R * tab.pR + curl_Z * tab.pZ
        env.claim_eq("curl^x=curl.grad(psi)", got["curl_bOverB_x"], cx)
        A = (curl_R * BRv + curl_Z * BZv) / (Bp * hy)
        C = (curl_R * BZv - curl_Z * BRv) / (Bp * hy)
        if orthogonal:
            env.claim_eq("curl^y=curl.grad(y)", got["curl_bOverB_y"], A)
        else:
            # grad y is the dual basis vector of the actual grid: e_x = delta/dx (dx = grad(psi).delta), e_y = hy*bpsign*Bp_hat
            dlt, bh = beta["delta"], beta["bhat"]
            dxx = tab.pR * dlt[0] + tab.pZ * dlt[1]
            ex = (dlt[0] / dxx, dlt[1] / dxx)
            ey = (hy * bpsign * bh[0], hy * bpsign * bh[1])
            det2 = ex[0] * ey[1] - ex[1] * ey[0]
            grady = (-ex[1] / det2, ex[0] / det2)
            env.claim_eq("curl^y=curl.grad(y)", got["curl_bOverB_y"], curl_R * grady[0] + curl_Z * grady[1])
            env.claim_eq("curl^y_up_to_the_sign_of_tanBeta", (got["curl_bOverB_y"] - A) ** 2, (tanb * C) ** 2)
            gy2 = ((BRv - BZv * tanb) ** 2 + (BZv + BRv * tanb) ** 2) / (Bp * hy) ** 2
            cos2 = 1 / (1 + tanb * tanb)
            env.claim_eq("|grad y|^2=1/(hy*cosBeta)^2", gy2 * cos2 * hy * hy, 1)
        env.claim_eq("curl^z=curl.grad(z)", got["curl_bOverB_z"],
                     curl_zeta / R - (f / R) * hy / (Bp * R) * got["curl_bOverB_y"] - Ival * got["curl_bOverB_x"])
        for c in "xyz":
            env.claim_eq("bxcv%s=B/2*curl^%s" % (c, c), got["bxcv" + c], Bxy / 2 * got["curl_bOverB_" + c])
    return body


def _mk_xy(bpsign, free_I=False):
    """'curl(b/B) with x-y derivatives' (orthogonal grids) with its DDX/DDY finite differences replaced by the EXACT derivatives along the grid
    directions (d/dx = grad(.).grad(psi)/|grad psi|^2, d/dy = hy * t_hat.grad(.), t_hat along increasing y) equals the 'curl(b/B)' formulation
    of the same region, component by component.  hy's radial derivative is the one an orthogonal grid has: d(hy)/dx = hy*div(n_hat)/|grad psi|."""
    import re

    def body(env):
        tab = PsiTable(env)
        R, Z = env.real("R", lo=1, hi=99), env.real("Z", lo=-99, hi=99)
        f, fp = env.real("fpol"), env.real("fpolprime")
        hy = env.real("hy", pos=True)
        g = env.real("gradpsi_mag", lo=0.1, hi=9)
        u = env.real("gradpsi_dir", lo=-3, hi=3)
        c, sn = (1 - u * u) / (1 + u * u), 2 * u / (1 + u * u)
        tab.pR, tab.pZ = g * c, g * sn
        Ival = env.real("I") if free_I else 0.0
        Rj = Jet2(R, 1, 0)
        gj = Jet2(g, tab.pRR * c + tab.pRZ * sn, tab.pRZ * c + tab.pZZ * sn)            # |grad psi| and its gradient H.n_hat
        Bpj = gj / Rj * bpsign
        fj = Jet2(f, fp * tab.pR, fp * tab.pZ)
        Btj = fj / Rj
        B2j = Bpj * Bpj + Btj * Btj
        b = B2j.v.sqrt() if env.mode == "sym" else float(B2j.v) ** 0.5                  # |B| (square-root auxiliary: b^2 reduces to Bp^2+Bt^2)
        Bj = Jet2(b, B2j.dR / (2 * b), B2j.dZ / (2 * b))
        nRj, nZj = Jet2(tab.pR, tab.pRR, tab.pRZ) / gj, Jet2(tab.pZ, tab.pRZ, tab.pZZ) / gj
        divn = nRj.dR + nZj.dZ
        tR, tZ = bpsign * sn, -bpsign * c                                                 # unit vector along Bp*bpsign = along increasing y
        gam = env.real("dhy_dy_free")
        hyj = Jet2(hy, hy * divn * c + gam * tR, hy * divn * sn + gam * tZ)
        fields = {"Rxy": Rj, "Bpxy": Bpj, "Btxy": Btj, "Bxy": Bj, "hy": hyj}

        def ev(expr):
            return eval(re.sub(r"#(\w+)", r"fields['\1']", expr), {"fields": fields})

        seen = []

        def DDX(expr):
            E = Jet2.lift(ev(expr))
            seen.append(("DDX", expr))
            return _same(env, 1, 1, (E.dR * tab.pR + E.dZ * tab.pZ) / (g * g))

        def DDY(expr):
            E = Jet2.lift(ev(expr))
            seen.append(("DDY", expr))
            return _same(env, 1, 1, hy * (E.dR * tR + E.dZ * tZ))

        out = {}
        with sym_numpy(env, mla_mod, mesh_mod):
            e0 = make_equilibrium(env, tab, jets=False)
            e0.fpol = lambda psi: f
            e0.fpolprime = lambda psi: fp
            for ctype in ("curl(b/B) with x-y derivatives", "curl(b/B)"):
                r = stub_region(1, 1, True, curvature_type=ctype)
                r.meshParent = types.SimpleNamespace(equilibrium=e0)
                r.bpsign = bpsign
                r.Rxy, r.Zxy = _same(env, 1, 1, R), _same(env, 1, 1, Z)
                r.Bpxy, r.Btxy, r.Bxy, r.hy = _same(env, 1, 1, Bpj.v), _same(env, 1, 1, f / R), _same(env, 1, 1, b), _same(env, 1, 1, hy)
                r.I = _same(env, 1, 1, Ival)
                r.DDX, r.DDY = DDX, DDY
                with field_numpy(env, e0):
                    r.calc_curvature()
                out[ctype] = {k: getattr(r, k).centre[0, 0] for k in ("curl_bOverB_x", "curl_bOverB_y", "curl_bOverB_z", "bxcvx", "bxcvy", "bxcvz")}
        env.witness("both_formulations_evaluated")
        env.claim("derivatives_requested_by_the_xy_formulation", sorted(set(seen)) == sorted({("DDY", "#Bxy"), ("DDX", "#Btxy*#Rxy/#Bxy**2"), ("DDX", "#hy/#Bpxy"), ("DDX", "#Btxy/#Rxy")}))
        a, bb = out["curl(b/B) with x-y derivatives"], out["curl(b/B)"]
        for k in a:
            env.claim_eq("xy_formulation_with_exact_derivatives=curl(b/B)_formulation:" + k, a[k], bb[k])
    return body


def _fd_reference(env, tab, R0, Z0, f0, fp0):
    from harness.c18 import _concrete_quadratic_equilibrium
    q = dict(p=float(tab.p), pR=float(tab.pR), pZ=float(tab.pZ), pRR=float(tab.pRR), pRZ=float(tab.pRZ), pZZ=float(tab.pZZ))
    eq = _concrete_quadratic_equilibrium(q, R0, Z0, f0, fp0)
    h = 1e-5
    d = lambda fn, a, b: (fn(R0 + a * h, Z0 + b * h) - fn(R0 - a * h, Z0 - b * h)) / (2 * h)  # noqa
    curl_R = -d(lambda R, Z: eq.Bzeta(R, Z) / eq.B2(R, Z), 0, 1)
    curl_Z = d(lambda R, Z: R * eq.Bzeta(R, Z) / eq.B2(R, Z), 1, 0) / R0
    curl_zeta = d(lambda R, Z: eq.Bp_R(R, Z) / eq.B2(R, Z), 0, 1) - d(lambda R, Z: eq.Bp_Z(R, Z) / eq.B2(R, Z), 1, 0)
    return curl_R, curl_Z, curl_zeta, eq.Bp_R(R0, Z0), eq.Bp_Z(R0, Z0)


def ob_refusals(env):
    r = stub_region(1, 1, False, curvature_type="curl(b/B) with x-y derivatives")
    try:
        r.calc_curvature()
        env.claim("xy_derivative_form_refused_on_nonorthogonal_grid", False)
    except ValueError:
        env.claim("xy_derivative_form_refused_on_nonorthogonal_grid", True)
    r = stub_region(1, 1, True, curvature_type="bxkappa")
    try:
        r.calc_curvature()
        env.claim("bxkappa_refused", False)
    except ValueError:
        env.claim("bxkappa_refused", True)
    r = stub_region(1, 1, True, curvature_type="something else")
    try:
        r.calc_curvature()
        env.claim("unknown_type_refused", False)
    except ValueError:
        env.claim("unknown_type_refused", True)
    env.witness("ran")


ENC = ["hypnotoad.core.mesh:MeshRegion.calc_curvature"] + ["hypnotoad.core.equilibrium:Equilibrium." + n for n in
                                                           ("Bzeta", "B2", "dBzetadR", "dBzetadZ", "dBRdZ", "dBZdR", "dB2dR", "dB2dZ")]
for _o in (True, False):
    for _b in (1.0, -1.0):
        for _i in (False, True):
            OBLIGATIONS.append(Ob("curvature_%s_bpsign%+d%s" % ("orth" if _o else "nonorth", int(_b), "_freeI" if _i else ""), _mk(_o, _b, _i),
                                  tier="quick" if not _i else "thorough", family="calc_curvature", encodes=ENC,
                                  desc="curl_bOverB_x/y/z = curl(b/B).grad(x/y/z) with curl from AD of the real field functions; bxcv = B/2 * curl",
                                  stubs=["RectBivariateSpline -> table/jets", "fpol, fpol' symbols"], bounds="see META", wall_s=600))
OBLIGATIONS.append(Ob("refusals", ob_refusals, tier="quick", family="calc_curvature", encodes=["hypnotoad.core.mesh:MeshRegion.calc_curvature"],
                      desc="x-y-derivative form refused when non-orthogonal; bxkappa and unknown types raise", bounds="-"))

# ---------------------------------------------------------------------------------------------
def _mk_ddy(has_lower, has_upper):
    """MeshRegion.DDY (used by the 'curl(b/B) with x-y derivatives' formulation): second-order central differences in y at all four locations,
    across region joins with the neighbour's adjacent value, one-sided over half a cell at a target"""
    import types as _t
    import numpy as _np
    from harness.common import sym_numpy as _sn, stub_region as _sr, mk_mla as _mk, mla_mod as _mla, mesh_mod as _mesh, MultiLocationArray as _MLA

    def body(env):
        nx, ny = 1, 2
        locs = ("centre", "xlow", "ylow", "corners")
        regs = {}
        dy = env.real("dy", pos=True)
        with _sn(env, _mla, _mesh):
            for rid in (0, 1, 2):
                r = _sr(nx, ny, True)
                r.myID = rid
                r.fld = _mk(env, nx, ny, "f%d" % rid, locs, lo=-9, hi=9)
                r.dy = _MLA(nx, ny)
                r.dy.centre, r.dy.ylow, r.dy.xlow, r.dy.corners = dy, dy, dy, dy
                regs[rid] = r
            mid = regs[1]
            mid.connections = {"inner": None, "outer": None, "lower": 0 if has_lower else None, "upper": 2 if has_upper else None}
            mp = _t.SimpleNamespace(regions=regs)
            for r in regs.values():
                r.meshParent = mp
            res = mid.DDY("#fld")
        env.witness("DDY_returned")
        f, lo, up = mid.fld, regs[0].fld, regs[2].fld
        for j in range(ny):
            env.claim_eq("centre=(ylow[j+1]-ylow[j])/dy", res.centre[0, j], (f.ylow[0, j + 1] - f.ylow[0, j]) / dy)
            for i in range(nx + 1):
                env.claim_eq("xlow=(corners[j+1]-corners[j])/dy", res.xlow[i, j], (f.corners[i, j + 1] - f.corners[i, j]) / dy)
        env.claim_eq("ylow_interior=(centre[j]-centre[j-1])/dy", res.ylow[0, 1], (f.centre[0, 1] - f.centre[0, 0]) / dy)
        for i in range(nx + 1):
            env.claim_eq("corners_interior=(xlow[j]-xlow[j-1])/dy", res.corners[i, 1], (f.xlow[i, 1] - f.xlow[i, 0]) / dy)
        if has_lower:
            env.claim_eq("ylow_lower_face_across_regions", res.ylow[0, 0], (f.centre[0, 0] - lo.centre[0, -1]) / dy)
            env.claim_eq("corners_lower_face_across_regions", res.corners[0, 0], (f.xlow[0, 0] - lo.xlow[0, -1]) / dy)
        else:
            env.claim_eq("ylow_lower_face_one_sided_half_cell", res.ylow[0, 0], (f.centre[0, 0] - f.ylow[0, 0]) / (dy / 2))
            env.claim_eq("corners_lower_face_one_sided_half_cell", res.corners[0, 0], (f.xlow[0, 0] - f.corners[0, 0]) / (dy / 2))
        if has_upper:
            env.claim_eq("ylow_upper_face_across_regions", res.ylow[0, -1], (up.centre[0, 0] - f.centre[0, -1]) / dy)
            env.claim_eq("corners_upper_face_across_regions", res.corners[0, -1], (up.xlow[0, 0] - f.xlow[0, -1]) / dy)
        else:
            env.claim_eq("ylow_upper_face_one_sided_half_cell", res.ylow[0, -1], (f.ylow[0, -1] - f.centre[0, -1]) / (dy / 2))
            env.claim_eq("corners_upper_face_one_sided_half_cell", res.corners[0, -1], (f.corners[0, -1] - f.xlow[0, -1]) / (dy / 2))
    return body


for _b in (1.0, -1.0):
    OBLIGATIONS.append(Ob("xy_derivative_formulation_bpsign%+d" % int(_b), _mk_xy(_b), tier="quick", family="calc_curvature", encodes=ENC,
                          desc="'curl(b/B) with x-y derivatives' with exact derivatives along the grid directions equals the 'curl(b/B)' formulation (all six outputs)",
                          stubs=["DDX/DDY -> exact directional derivatives by AD (their stencils are decided separately: DDX under C06, DDY here)", "RectBivariateSpline -> table",
                                 "d(hy)/dx from orthogonality of the grid"], bounds="one point, all field values and derivatives symbolic", wall_s=600))
for _l in (False, True):
    for _u in (False, True):
        OBLIGATIONS.append(Ob("ddy_lower%d_upper%d" % (_l, _u), _mk_ddy(_l, _u), tier="quick", family="DDY", encodes=["hypnotoad.core.mesh:MeshRegion.DDY"],
                              desc="central y-differences at centre/xlow/ylow/corners; joins use the neighbour's adjacent value, targets a half-cell one-sided difference",
                              bounds="nx=1, ny=2, three regions stacked in y, all values and dy symbolic"))
