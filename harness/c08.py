"""C08 - block topology, branch-cut indices, global index map.

Real describeSingleNull/describeDoubleNull, createRegionObjects, makeConnection, Mesh.__init__ numbering and
x/y grouping (MeshRegion replaced by a record stub), real BoutMesh.__init__ index code and an AST slice of
BoutMesh.writeGridfile (the statements computing ixseps*/jyseps*/ny_inner), all run with *symbolic integer sizes*.
The claims are linear-integer-arithmetic queries over all sizes >= 1.
"""
import ast
import contextlib
import hashlib
import inspect
import io
import textwrap
import types

import numpy
import z3

from symx import core
from symx.core import SymInt, SymBool, SymReal
from symx.npproxy import patched
from symx.runner import registry, Ob

import hypnotoad.core.equilibrium as eqm
import hypnotoad.core.mesh as meshm
import hypnotoad.cases.tokamak as tok
from hypnotoad.core.equilibrium import Point2D

OBLIGATIONS, obligation = registry()

META = {
    "explanation": "Real topology descriptors (describeSingleNull/DoubleNull, createRegionObjects, makeConnection), real Mesh.__init__ "
                   "numbering/grouping, real BoutMesh.__init__ index code and the AST slice of writeGridfile that computes "
                   "ixseps1/2, jyseps*, ny_inner are executed with every size option a z3 Int >= 1; claims are LIA queries.",
    "bounds": "all per-region nx/ny sizes symbolic and unbounded above (>=1); y_boundary_guards enumerated 0..2 (quick) / 0..4 (thorough); "
              "topologies LSN, USN, CDN, LDN, UDN and LSN/CDN/LDN/UDN with start_at_upper_outer; nx_inter_sep symbolic >=1 for disconnected DN.",
    "out": "coincidence of corner *coordinates* on shared x-edges beyond what decides them (orthogonal grids: both regions follow the same perpendiculars from the same skeleton points; non-orthogonal grids: the global x index and the surface direction handed to the spacing functions are decided, the interpolation itself is not) and beyond the getRZBoundary copy on y-edges; values of chi (its NaN mask and the theta index expressions are decided).",
    "assumptions": ["findLegs, coreRegionToRegion, segmentsWithPsivals (numerics) are stubbed: only sizes matter here",
                    "MeshRegion is replaced by a record stub (id, connections); EquilibriumRegion.getRegridded -> identity",
                    "BOUT++ reference semantics of ixseps/jyseps/ny_inner/y_boundary_guards written in this harness from the BOUT++ manual (BoutMesh::topology): "
                    "cuts at jyseps1_1/jyseps2_2 act for x<ixseps1, cuts at jyseps2_1/jyseps1_2 for x<ixseps2, targets at ny_inner-1 and ny-1, "
                    "guard cells of upper targets stored in the middle of the y range"],
}


class OptProxy:
    """options object whose listed entries are symbolic"""

    def __init__(self, real, over):
        self.__dict__["_r"] = real
        self.__dict__["_o"] = over

    def __getattr__(self, k):
        return self._o[k] if k in self._o else getattr(self._r, k)

    def __getitem__(self, k):
        return self._o[k] if k in self._o else self._r[k]

    def keys(self):
        return self._r.keys()

    def items(self):
        return [(k, self[k]) for k in self._r]

    def __iter__(self):
        return iter(self._r)

    def __contains__(self, k):
        return k in self._r


class FakeVals:
    def __init__(self, n):
        self.n = n

    def __getitem__(self, k):
        return FakeVals((self.n, "slice"))

    def __rmul__(self, o):
        return 1.0e9

    def __repr__(self):
        return "FV%s" % (self.n,)


class StubRegion:
    def __init__(self, meshParent, myID, eqreg, connections, radialIndex, settings, parallel_map):
        self.meshParent = meshParent
        self.myID = myID
        self.equilibriumRegion = eqreg
        self.connections = connections
        self.radialIndex = radialIndex
        self.yGroupIndex = None
        self.name = "%s(%d)" % (eqreg.name, radialIndex)

    def getNeighbour(self, face):
        c = self.connections[face]
        return None if c is None else self.meshParent.regions[c]


_SLICE = {}


def topo_slice():
    """compile the statements of writeGridfile from `eq_region0 = ...` to just before f.write("ixseps1", ...)"""
    if "fn" in _SLICE:
        return _SLICE["fn"], _SLICE["info"]
    src = textwrap.dedent(inspect.getsource(meshm.BoutMesh.writeGridfile))
    _, first_line = inspect.getsourcelines(meshm.BoutMesh.writeGridfile)
    fn = ast.parse(src).body[0]
    withnode = [n for n in fn.body if isinstance(n, ast.With)][0]
    body = withnode.body
    start = next(i for i, n in enumerate(body) if isinstance(n, ast.Assign) and getattr(n.targets[0], "id", None) == "eq_region0")
    end = next(i for i, n in enumerate(body) if isinstance(n, ast.Expr) and isinstance(n.value, ast.Call)
               and getattr(n.value.func, "attr", None) == "write" and n.value.args and getattr(n.value.args[0], "value", None) == "ixseps1")
    names = ["ixseps1", "ixseps2", "jyseps1_1", "jyseps2_1", "ny_inner", "jyseps1_2", "jyseps2_2"]
    # the values actually written: take the first argument pairs of the f.write calls that follow
    written = {}
    for n in body[end:end + 7]:
        written[n.value.args[0].value] = ast.unparse(n.value.args[1])
    ret = ast.parse("return {" + ",".join("'%s': %s" % (k, v) for k, v in written.items()) + "}").body[0]
    f2 = ast.FunctionDef(name="topo_slice", args=fn.args, body=body[start:end] + [ret], decorator_list=[], returns=None,
                         type_comment=None, type_params=[])
    mod = ast.Module(body=[f2], type_ignores=[])
    ast.fix_missing_locations(mod)
    ns = dict(meshm.__dict__)
    exec(compile(mod, "<writeGridfile topology slice>", "exec"), ns)
    text = "\n".join(src.splitlines()[body[start].lineno - 1: body[end - 1].end_lineno])
    info = {"file": inspect.getsourcefile(meshm), "function": "BoutMesh.writeGridfile[topology integers slice]",
            "lines": [first_line + body[start].lineno - 1, first_line + body[end - 1].end_lineno - 1],
            "sha1": hashlib.sha1(text.encode()).hexdigest()[:12], "written": written}
    assert set(written) == set(names), written
    _SLICE["fn"], _SLICE["info"] = ns["topo_slice"], info
    return ns["topo_slice"], info


SIZE_NAMES = ["nx_core", "nx_sol", "nx_pf", "nx_sol_inner", "nx_sol_outer", "ny_inner_lower_divertor", "ny_inner_upper_divertor",
              "ny_outer_lower_divertor", "ny_outer_upper_divertor", "ny_inner_sol", "ny_outer_sol"]


def build(env, kind, guards, start_upper_outer=False, capture=None, pre=None, pf=(0.9, 0.9), psi_sign=1.0):
    """kind in lsn usn cdn ldn udn. returns (eq, mesh, topo dict, sizes)"""
    eq = tok.TokamakEquilibrium.__new__(tok.TokamakEquilibrium)
    settings = {"y_boundary_guards": guards, "nx_inter_sep": 0 if kind in ("lsn", "usn", "cdn") else 1,
                "start_at_upper_outer": start_upper_outer}
    real = tok.TokamakEquilibrium.user_options_factory.create(settings)
    sym = {n: env.int(n, lo=1) for n in SIZE_NAMES}
    if kind in ("ldn", "udn"):
        sym["nx_inter_sep"] = env.int("nx_inter_sep", lo=1)
    eq.user_options = real
    eq.wall = [Point2D(0, 0), Point2D(1, 0), Point2D(1, 1)]
    eqm.Equilibrium.__init__(eq, {})
    eq.user_options = OptProxy(real, sym)
    eq.o_point = Point2D(1.0, 0.0)
    lowx, upx = Point2D(1.0, -1.0), Point2D(1.0, 1.0)
    if kind == "lsn":
        eq.x_points, eq.psi_sep = [lowx], [1.0]
    elif kind == "usn":
        eq.x_points, eq.psi_sep = [upx], [1.0]
    elif kind in ("cdn", "ldn"):
        eq.x_points, eq.psi_sep = [lowx, upx], [1.0, 1.1]
    else:
        eq.x_points, eq.psi_sep = [upx, lowx], [1.0, 1.1]
    eq.psi_axis = 0.0
    eq.psi_core = 0.9
    eq.psi_sol = 1.2
    eq.psi_sol_inner = 1.2
    eq.psi_pf_lower, eq.psi_pf_upper = pf
    eq.psi_increasing = True
    if psi_sign != 1.0:
        # the same equilibrium with psi -> psi_sign * psi (psi decreasing outwards for a negative sign)
        eq.psi_sep = [psi_sign * v for v in eq.psi_sep]
        eq.psi_core, eq.psi_sol, eq.psi_sol_inner = psi_sign * eq.psi_core, psi_sign * eq.psi_sol, psi_sign * eq.psi_sol_inner
        eq.psi_pf_lower, eq.psi_pf_upper = psi_sign * pf[0], psi_sign * pf[1]
        eq.psi_increasing = psi_sign > 0
    eq.psi = (lambda R, Z: eq.psi_sep[0] if (Z < 0) == (eq.x_points[0].Z < 0) else eq.psi_sep[1])
    eq.f_R = eq.f_Z = None
    eq.findLegs = lambda xp, **k: {"inner": [xp, Point2D(xp.R - 1, xp.Z)], "outer": [xp, Point2D(xp.R + 1, xp.Z)]}

    def seg2(segments):
        if capture is not None:
            capture["segments"] = segments
        out = {}
        for n, s in segments.items():
            s = dict(s)
            s["psi_vals"] = FakeVals(n)
            out[n] = s
        return out

    eq.segmentsWithPsivals = seg2
    eq.coreRegionToRegion = lambda cr, npoints=100: {k: dict(v, points=[Point2D(0, 0), Point2D(0, 1)], psi=None) for k, v in cr.items()}
    eq.p_spl = None
    eq.Rmin, eq.Rmax, eq.Zmin, eq.Zmax = 0, 2, -2, 2
    if pre is not None:
        pre(eq)
    with contextlib.redirect_stdout(io.StringIO()):
        if len(eq.x_points) == 1:
            leg, corer, segments, conns = eq.describeSingleNull()
        else:
            leg, corer, segments, conns = eq.describeDoubleNull()
        allr = leg.copy()
        allr.update(eq.coreRegionToRegion(corer))
        if capture is not None:
            capture["regions"] = allr
        eq.regions = eq.createRegionObjects(allr, segments)
        for c in conns:
            eq.makeConnection(*c)
        for r in eq.regions.values():
            r.getRegridded = (lambda rr: (lambda **k: rr))(r)
        with patched((meshm, "MeshRegion", StubRegion)):
            try:
                mesh = meshm.BoutMesh(eq, settings)
            except ValueError as e:
                if "same set of x-grid sizes" in str(e):
                    # sizes for which the real code refuses to build a logically rectangular grid: outside every claim made on the built mesh
                    raise core.PathAbort("refused: radial sizes of the regions do not match")
                raise
    fn, info = topo_slice()
    t = fn(mesh, None)
    return eq, mesh, t, sym


def chi_mask_slices(names):
    """evaluate, in the namespace `names` (topology integers as SymInt, myg), the (lower, upper) bounds of the slices that the current
    source sets to NaN in chi; simple helper assignments between `myg = ...` and that loop are executed first"""
    src = textwrap.dedent(inspect.getsource(meshm.BoutMesh.writeGridfile))
    fn = ast.parse(src).body[0]
    body = [n for n in fn.body if isinstance(n, ast.With)][0].body
    i_myg = next(i for i, n in enumerate(body) if isinstance(n, ast.Assign) and ast.unparse(n.targets[0]) == "myg")
    i_for = next(i for i, n in enumerate(body) if isinstance(n, ast.For) and "chi.centre" in ast.unparse(n.iter))
    ns = dict(names)
    for st in body[i_myg + 1:i_for]:
        if isinstance(st, ast.Assign) and len(st.targets) == 1 and isinstance(st.targets[0], ast.Name):
            try:
                ns[st.targets[0].id] = eval(compile(ast.Expression(st.value), "<helper>", "eval"), {}, ns)
            except core.PathAbort:
                raise
            except Exception:
                pass
    out = []
    for st in body[i_for].body:
        if isinstance(st, ast.Assign) and "nan" in ast.unparse(st.value):
            ysl = st.targets[0].slice.elts[1]
            lo = None if ysl.lower is None else eval(compile(ast.Expression(ysl.lower), "<lo>", "eval"), {}, ns)
            hi = None if ysl.upper is None else eval(compile(ast.Expression(ysl.upper), "<hi>", "eval"), {}, ns)
            out.append((lo, hi))
        elif not isinstance(st, ast.Assign):
            raise core.HarnessError("unexpected statement in the chi NaN mask loop: %s" % type(st).__name__)
    if not out:
        raise core.HarnessError("chi NaN mask statements not found")
    return out


def theta_index_exprs(names):
    """index expressions of the theta construction in the current source, evaluated in `names` (topology integers as SymInt, myg):
    zero  - ylow index whose y value is subtracted (theta's zero),
    start - first y index of the block shifted for a second divertor, A, B - ylow indices whose y difference is that shift"""
    src = textwrap.dedent(inspect.getsource(meshm.BoutMesh.writeGridfile))
    fn = ast.parse(src).body[0]
    body = [n for n in fn.body if isinstance(n, ast.With)][0].body
    loop = next(n for n in body if isinstance(n, ast.For) and "theta.centre" in ast.unparse(n.iter))
    ylow_idx = [n.slice.elts[2] for n in ast.walk(loop) if isinstance(n, ast.Subscript) and ast.unparse(n.value) == "theta.ylow" and isinstance(n.slice, ast.Tuple)]
    starts = [n.slice.elts[1].lower for n in ast.walk(loop) if isinstance(n, ast.Subscript) and ast.unparse(n.value) == "t" and isinstance(n.slice, ast.Tuple)
              and isinstance(n.slice.elts[1], ast.Slice) and n.slice.elts[1].lower is not None]
    if len(ylow_idx) != 3 or len(starts) != 1:
        raise core.HarnessError("theta construction has an unexpected shape: %d ylow subscripts, %d shifted slices" % (len(ylow_idx), len(starts)))
    ev = lambda e: eval(compile(ast.Expression(e), "<theta index>", "eval"), {}, dict(names))  # noqa: E731
    # ast.walk is breadth-first: the zero subscript (depth 1 of the loop body) comes first, then the two of the difference in source order
    order = sorted(ylow_idx, key=lambda e: (e.lineno, e.col_offset))
    return {"zero": ev(order[0]), "A": ev(order[1]), "B": ev(order[2]), "start": ev(starts[0])}


def ob_y_coordinate_affine(env):
    """the y-coord construction of writeGridfile with a uniform symbolic dy: centre[k] = k*dy, ylow[k] = (k - 1/2)*dy (the model the theta
    index claims rest on)"""
    from symx import slices as _sl
    from harness.common import sym_numpy, mla_mod, MultiLocationArray
    fn, info = _sl.slice_function(meshm.BoutMesh.writeGridfile, lambda n: False, lambda n: False, ["self"], meshm.__dict__, name="unused") if False else (None, None)
    src = textwrap.dedent(inspect.getsource(meshm.BoutMesh.writeGridfile))
    f0 = ast.parse(src).body[0]
    body = [n for n in f0.body if isinstance(n, ast.With)][0].body
    i0 = next(i for i, n in enumerate(body) if isinstance(n, ast.Assign) and ast.unparse(n.targets[0]) == "y" and "MultiLocationArray" in ast.unparse(n.value))
    i1 = next(i for i, n in enumerate(body) if i > i0 and isinstance(n, ast.Assign) and ast.unparse(n.targets[0]) == "y.attributes['bout_type']")
    f2 = ast.FunctionDef(name="ycoord", args=ast.arguments(posonlyargs=[], args=[ast.arg("self")], kwonlyargs=[], kw_defaults=[], defaults=[]),
                         body=body[i0:i1] + [ast.parse("return y").body[0]], decorator_list=[], returns=None, type_comment=None, type_params=[])
    m = ast.Module(body=[f2], type_ignores=[])
    ast.fix_missing_locations(m)
    nx, ny = 2, 4
    d = env.real("dy", pos=True)
    with sym_numpy(env, mla_mod, meshm):
        ns = dict(meshm.__dict__)
        exec(compile(m, "<writeGridfile y-coord>", "exec"), ns)
        dyarr = MultiLocationArray(nx, ny)
        dyarr.centre = d
        me = types.SimpleNamespace(nx=nx, ny=ny, dy=dyarr)
        y = ns["ycoord"](me)
    env.witness("built")
    for i in range(nx):
        for k in range(ny):
            env.claim_eq("y_centre[k]=k*dy", y.centre[i, k], k * d)
        for k in range(ny + 1):
            env.claim_eq("y_ylow[k]=(k-1/2)*dy", y.ylow[i, k], (k - 0.5) * d)
    for k in range(ny):
        env.claim_eq("y_xlow[k]=k*dy", y.xlow[0, k], k * d)


def zi(x):
    if isinstance(x, SymInt):
        return x.e
    return z3.IntVal(int(x))


def region_box(mesh, rid):
    xs, ys = mesh.region_indices[rid]
    return zi(xs.start), zi(xs.stop), zi(ys.start), zi(ys.stop)


TARGET = z3.IntVal(-99)


def hypnotoad_up(mesh, g, x, yf):
    """file-index y of the cell above (x, yf) according to hypnotoad's regions+connections; TARGET if none.
    Guard cells (the first/last g rows of a region without lower/upper connection) are not domain cells."""
    res = z3.IntVal(-77)  # (x, yf) not a domain cell
    for rid, reg in mesh.regions.items():
        x0, x1, y0, y1 = region_box(mesh, rid)
        lo = y0 + (g if reg.connections["lower"] is None else 0)
        hi = y1 - (g if reg.connections["upper"] is None else 0)
        inside = z3.And(x >= x0, x < x1, yf >= lo, yf < hi)
        up = reg.connections["upper"]
        if up is None:
            nxt = TARGET
        else:
            _, _, uy0, uy1 = region_box(mesh, up)
            ureg = mesh.regions[up]
            nxt = uy0 + (g if ureg.connections["lower"] is None else 0)
        res = z3.If(inside, z3.If(yf + 1 < hi, yf + 1, nxt), res)
    return res


def bout_up(t, nx, ny, x, y):
    """BOUT++ documented meaning of the topology integers (y without guard cells)"""
    ix1, ix2 = zi(t["ixseps1"]), zi(t["ixseps2"])
    j11, j21, j12, j22, nyi = [zi(t[k]) for k in ("jyseps1_1", "jyseps2_1", "jyseps1_2", "jyseps2_2", "ny_inner")]
    dn = j21 != j12
    r = z3.If(y == ny - 1, TARGET, y + 1)
    r = z3.If(z3.And(dn, y == nyi - 1), TARGET, r)
    r = z3.If(z3.And(dn, x < ix2, y == j12), j21 + 1, r)
    r = z3.If(z3.And(dn, x < ix2, y == j21), j12 + 1, r)
    r = z3.If(z3.And(x < ix1, y == j22), j11 + 1, r)
    r = z3.If(z3.And(x < ix1, y == j11), z3.If(j22 + 1 <= ny - 1, j22 + 1, TARGET), r)
    return r


def file_index(t, g, y):
    """position in the grid-file arrays (which include guard cells) of BOUT++ y index y"""
    j21, j12, nyi = zi(t["jyseps2_1"]), zi(t["jyseps1_2"]), zi(t["ny_inner"])
    dn = j21 != j12
    return y + g + z3.If(z3.And(dn, y >= nyi), 2 * g, 0)


def build_circular(env, limiter, guards):
    """circular geometry (core-only periodic, or limiter with walls at both ends): real CircularEquilibrium.makeRegion with symbolic nx, ny"""
    import hypnotoad.cases.circular as circ
    eq = circ.CircularEquilibrium.__new__(circ.CircularEquilibrium)
    settings = {"limiter": limiter, "y_boundary_guards": guards}
    real = circ.CircularEquilibrium.user_options_factory.create(settings)
    sym = {"nx": env.int("nx", lo=1), "ny": env.int("ny", lo=1)}
    eq.user_options = real
    eqm.Equilibrium.__init__(eq, {})
    eq.user_options = OptProxy(real, sym)
    eq.psi_r = lambda r: 1.0 + r

    class NP:
        def __getattr__(self, k):
            return getattr(numpy, k)

        def linspace(self, a, b, n=50, **kw):
            if isinstance(n, SymInt):
                return FakeVals("psi_vals")
            return numpy.linspace(a, b, n, **kw)

    from collections import OrderedDict
    with patched((circ, "np", NP())), contextlib.redirect_stdout(io.StringIO()):
        eq.regions = OrderedDict(circular=eq.makeRegion())
        if not limiter:
            eq.makeConnection("circular", 0, "circular", 0)
        for r in eq.regions.values():
            r.getRegridded = (lambda rr: (lambda **k: rr))(r)
        with patched((meshm, "MeshRegion", StubRegion)):
            mesh = meshm.BoutMesh(eq, settings)
    fn, info = topo_slice()
    t = fn(mesh, None)
    return eq, mesh, t, sym


def build_torpex(env, guards):
    """isolated X-point with four legs ending on the wall (TORPEX): real TORPEXMagneticField.makeRegions with symbolic sizes"""
    import hypnotoad.cases.torpex as tpx
    eq = tpx.TORPEXMagneticField.__new__(tpx.TORPEXMagneticField)
    settings = {"y_boundary_guards": guards, "psi_core": 0.9, "psi_sol": 1.2, "refine_methods": "line"}
    real = tpx.TORPEXMagneticField.user_options_factory.create(settings)
    sym = {n: env.int(n, lo=1) for n in ("nx_core", "nx_sol", "ny_inner_lower_divertor", "ny_inner_upper_divertor",
                                          "ny_outer_upper_divertor", "ny_outer_lower_divertor")}
    over = dict(sym, psi_sol=1.2, psi_sol_inner=1.2, psi_pf_lower=0.9, psi_pf_upper=0.9, psi_core=0.9, psi_pf=0.9)
    eq.user_options = real
    eqm.Equilibrium.__init__(eq, {})
    eq.user_options = OptProxy(real, over)
    eq.x_points, eq.psi_sep = [Point2D(1.0, 0.0)], [1.0]
    eq.psi = lambda R, Z: 1.0
    eq.f_R = eq.f_Z = None
    eq.Rmin, eq.Rmax, eq.Zmin, eq.Zmax = 0, 2, -1, 1
    eq.findRoots_1d = lambda f, n, lo, hi: [0.125, 0.375, 0.625, 0.875]
    eq.wallPosition = lambda sp: Point2D(1.0 + numpy.cos(2 * numpy.pi * sp), numpy.sin(2 * numpy.pi * sp))
    eq.wallVector = lambda sp: numpy.array([1.0, 0.0])
    eq.getSmoothMonotonicGridFunc = lambda *a, **k: None
    eq.make1dGrid = lambda n, f: FakeVals(n)

    class Leg(eqm.EquilibriumRegion):
        def getRefined(self, **kw):
            return self

    with patched((tpx, "EquilibriumRegion", Leg)), contextlib.redirect_stdout(io.StringIO()):
        eq.makeRegions()
        for r in eq.regions.values():
            r.getRegridded = (lambda rr: (lambda **k: rr))(r)
        with patched((meshm, "MeshRegion", StubRegion)):
            mesh = meshm.BoutMesh(eq, settings)
    fn, info = topo_slice()
    t = fn(mesh, None)
    return eq, mesh, t, sym


def _mk_xpoint_markers(kind, psi_sign=1.0):
    """region descriptors: the X-point that a region end touches is marked at the radial boundary whose psi is that X-point's separatrix value, and
    nowhere else (the marker decides which cell corner is pinned to the X-point and which four blocks share it)"""
    def body(env):
        captured = {}
        eq, mesh, t, sym = build(env, kind, 0, False, capture=captured, psi_sign=psi_sign)
        env.witness("descriptor_built")
        segs = captured["segments"]
        parent = {"upper_pf2": "upper_pf", "lower_pf2": "lower_pf"}
        lowx = [p for p in eq.x_points if p.Z < 0]
        upx = [p for p in eq.x_points if p.Z > 0]

        def sep_psi(xp):
            # a connected double null grids both X-points on the first separatrix
            return eq.psi_sep[0] if kind == "cdn" else eq.psi_sep[[q is xp for q in eq.x_points].index(True)]

        for rname, reg in captured["regions"].items():
            names = reg["segments"]
            nseg = len(names)
            # psi at the radial boundaries 1..nseg-1 (None where one gridded segment is merely split in two)
            bpsi = [None] * (nseg + 1)
            for k in range(1, nseg):
                a, b = names[k - 1], names[k]
                bpsi[k] = None if parent.get(b) == a else segs[parent.get(a, a)]["psi_end"]
            first, last = reg["kind"].split(".")
            # which X-point each end touches (standard ordering: y runs from the inner lower target clockwise)
            if "lower_divertor" in rname:
                ends = {"start": lowx[0] if first == "X" else None, "end": lowx[0] if last == "X" else None}
            elif "upper_divertor" in rname:
                ends = {"start": upx[0] if first == "X" else None, "end": upx[0] if last == "X" else None}
            elif rname == "inner_core":
                ends = {"start": lowx[0], "end": upx[0]}
            elif rname == "outer_core":
                ends = {"start": upx[0], "end": lowx[0]}
            else:  # single null core
                ends = {"start": eq.x_points[0], "end": eq.x_points[0]}
            for end, xp in ends.items():
                markers = reg.get("xpoints_at_" + end)
                if xp is None:
                    env.claim("wall_end_has_no_xpoint_marker:%s" % rname, markers is None or all(m is None for m in markers))
                    continue
                want = [None] * (nseg + 1)
                hits = [k for k in range(1, nseg) if bpsi[k] is not None and bpsi[k] == sep_psi(xp)]
                env.claim("one_radial_boundary_lies_on_the_xpoint's_separatrix:%s" % rname, len(hits) == 1)
                if len(hits) == 1:
                    want[hits[0]] = xp
                env.claim("xpoint_marked_at_its_own_separatrix_boundary_only:%s.%s" % (rname, end),
                          markers is not None and len(markers) == nseg + 1 and all(m is w for m, w in zip(markers, want)))
    return body


def ob_global_xind(env):
    """MeshRegion.globalXInd: the contour shared by two radially adjacent regions (last of the inner one, first of the outer one) has ONE global index
    from both sides, the index is 0 on the primary separatrix and increases by one from contour to contour.  (The index decides the radially varying
    spacing ranges of a non-orthogonal grid: two different values would grid the shared flux surface twice, differently.)"""
    nseg = 3
    nx = [env.int("nx_segment%d" % k, lo=1) for k in range(nseg)]
    sep = env.choose(nseg + 1)          # number of radial segments inside the separatrix (0: none, nseg: all)
    env.tag("segments_inside_separatrix=%d" % sep)
    regs = []
    for r in range(nseg):
        m = meshm.MeshRegion.__new__(meshm.MeshRegion)
        m.radialIndex = r
        m.equilibriumRegion = types.SimpleNamespace(nx=nx, separatrix_radial_index=sep)
        regs.append(m)
    env.witness("indices_computed")
    for r in range(nseg - 1):
        env.claim_eq("shared_contour_has_one_global_index:%d|%d" % (r, r + 1), regs[r].globalXInd(2 * nx[r]), regs[r + 1].globalXInd(0))
    for r in range(nseg):
        i = env.int("i", lo=0)
        env.claim_eq("consecutive_contours_consecutive_indices", regs[r].globalXInd(i + 1), regs[r].globalXInd(i) + 1)
    if 0 < sep < nseg:
        env.claim_eq("zero_on_the_separatrix(from_inside)", regs[sep - 1].globalXInd(2 * nx[sep - 1]), 0)
    if sep < nseg:
        env.claim_eq("zero_on_the_separatrix(from_outside)", regs[sep].globalXInd(0), 0)
    if sep == nseg:
        env.claim_eq("zero_on_the_separatrix(from_inside)", regs[nseg - 1].globalXInd(2 * nx[nseg - 1]), 0)


def _mk_shared_contour_direction(lower):
    """non-orthogonal grids: the contour shared by two radially adjacent regions is redistributed by each of them; the surface direction that fixes the
    perpendicular spacing at its ends (surface_vec in distributePointsNonorthogonal) must be the same from both sides, otherwise the two regions put
    different points on the flux surface they share (the primary separatrix is special-cased by the code and not the subject here)"""
    def body(env):
        from symx import slices
        fn, info = slices.slice_function(meshm.MeshRegion.distributePointsNonorthogonal, lambda n: isinstance(n, ast.FunctionDef) and n.name == "surface_vec",
                                         lambda n: isinstance(n, ast.FunctionDef) and n.name == "get_sfunc", ["self"], dict(meshm.__dict__, numpy=numpy),
                                         name="surface_vec_of_distributePointsNonorthogonal")

        class C:
            def __init__(self, name, psival, pts=None):
                self.psival, self.startInd, self.endInd = psival, 0, 1
                self.pts = pts or [Point2D(env.real("%s_%s_R" % (name, e)), env.real("%s_%s_Z" % (name, e))) for e in ("start", "end")]

            def __getitem__(self, k):
                return self.pts[k]

        shared_pts = C("shared", 1.2).pts
        inner = [C("inner0", 1.1), C("inner1", 1.15), C("shared", 1.2, shared_pts)]
        outer = [C("shared", 1.2, shared_pts), C("outer1", 1.25), C("outer2", 1.3)]
        regs = []
        for contours in (inner, outer):
            r = types.SimpleNamespace(contours=contours, meshParent=types.SimpleNamespace(equilibrium=types.SimpleNamespace(psi_sep=[1.0])),
                                      equilibriumRegion=types.SimpleNamespace(wallSurfaceAtStart=None, wallSurfaceAtEnd=None))
            regs.append(fn(r)["surface_vec"])
        va = regs[0](2, inner[2], lower)
        vb = regs[1](0, outer[0], lower)
        env.witness("directions_computed")
        if va is None or vb is None:
            env.claim("both_sides_use_poloidal_spacing_or_neither", va is None and vb is None)
            return
        cross = va[0] * vb[1] - va[1] * vb[0]
        dot = va[0] * vb[0] + va[1] * vb[1]
        env.claim_eq("same_surface_direction_from_both_sides(parallel)", cross, 0)
        env.claim("same_surface_direction_from_both_sides(same_sense)", dot > 0)
    return body


def _mk_ygroups(kind, guards=0, suo=False):
    """Mesh.makeRegions (real, inside the real BoutMesh constructor): every chain of y-connected regions is a group in connection order; an open chain
    starts at its lower target, a periodic (core) chain starts at its FIRST region in global y-index order - the place the documentation gives for the
    origin of poloidal_distance/chi on closed surfaces (the lower X-point in the standard ordering), and the branch cut where BOUT++ applies ShiftAngle"""
    def body(env):
        if kind in ("circular_core", "circular_limiter"):
            eq, mesh, t, sym = build_circular(env, kind == "circular_limiter", guards)
        else:
            eq, mesh, t, sym = build(env, kind, guards, suo)
        env.witness("mesh_built")
        seen = []
        for group in mesh.y_groups:
            ids = [r.myID for r in group]
            seen += ids
            for k, r in enumerate(group):
                env.claim("yGroupIndex_is_the_position_in_the_group", r.yGroupIndex == k)
            for a, b in zip(group[:-1], group[1:]):
                env.claim("consecutive_group_members_are_y_connected", a.connections["upper"] == b.myID and b.connections["lower"] == a.myID)
            first, last = group[0], group[-1]
            periodic = last.connections["upper"] is not None
            if not periodic:
                env.claim("open_chain_starts_at_its_lower_target", first.connections["lower"] is None)
            else:
                env.claim("periodic_chain_closes_on_its_first_region", last.connections["upper"] == first.myID)
                y0 = [zi(mesh.region_indices[r.myID][1].start) for r in group]
                cond = z3.And(*[y0[0] <= y for y in y0[1:]]) if len(y0) > 1 else z3.BoolVal(True)
                env.claim("periodic_chain_starts_at_its_first_region_in_y_index_order", SymBool(cond) if env.mode == "sym" else bool(z3.is_true(z3.simplify(cond))))
        env.claim("every_region_in_exactly_one_group", sorted(seen) == sorted(mesh.regions))
    return body


def _mk(kind, guards, suo=False):
    def body(env):
        if kind in ("circular_core", "circular_limiter"):
            eq, mesh, t, sym = build_circular(env, kind == "circular_limiter", guards)
        elif kind == "xpoint":
            eq, mesh, t, sym = build_torpex(env, guards)
        else:
            eq, mesh, t, sym = build(env, kind, guards, suo)
        env.witness("descriptor_built")
        g = guards
        nx, ny, nyng = zi(mesh.nx), zi(mesh.ny), zi(mesh.ny_noguards)
        x, y, yn = [zi(env.int(n)) for n in ("x", "y", "yn")]

        def ZB(term):
            if env.mode == "sym":
                return SymBool(term)
            return bool(z3.is_true(z3.simplify(term)))
        # (a) tiling
        cover = []
        inside_rect = []
        for rid in mesh.region_indices:
            x0, x1, y0, y1 = region_box(mesh, rid)
            cover.append(z3.If(z3.And(x >= x0, x < x1, y >= y0, y < y1), 1, 0))
            inside_rect.append(z3.And(x0 >= 0, x1 <= nx, y0 >= 0, y1 <= ny, x0 < x1, y0 < y1))
        env.claim("tiling_exactly_once", ZB(z3.Implies(z3.And(x >= 0, x < nx, y >= 0, y < ny), z3.Sum(cover) == 1)))
        env.claim("regions_inside_rectangle_nonempty", ZB(z3.And(*inside_rect)))
        # (b) connections symmetric, equal edge sizes
        sym_ok = []
        for rid, reg in mesh.regions.items():
            x0, x1, y0, y1 = region_box(mesh, rid)
            for face, back in (("upper", "lower"), ("lower", "upper"), ("inner", "outer"), ("outer", "inner")):
                o = reg.connections[face]
                if o is None:
                    continue
                env.claim("connection_symmetric", mesh.regions[o].connections[back] == rid)
                ox0, ox1, oy0, oy1 = region_box(mesh, o)
                if face in ("upper", "lower"):
                    sym_ok.append(z3.And(ox0 == x0, ox1 == x1))
                else:
                    sym_ok.append(z3.And(oy0 == y0, oy1 == y1))
                    sym_ok.append(ox0 == x1 if face == "outer" else ox1 == x0)
        env.claim("joined_edges_equal_size_and_aligned", ZB(z3.And(*sym_ok)))
        # inner/outer connections: every region has an outer neighbour iff it is not in the last radial block
        # (c) BOUT++ decoding of the written integers == hypnotoad adjacency
        dom = z3.And(x >= 0, x < nx, yn >= 0, yn < nyng)
        H = hypnotoad_up(mesh, g, x, file_index(t, g, yn))
        B = bout_up(t, nx, nyng, x, yn)
        Bf = z3.If(B == TARGET, TARGET, file_index(t, g, B))
        env.claim("bout_decoding_equals_hypnotoad_adjacency", ZB(z3.Implies(dom, H == Bf)))
        ix1_, ix2_ = zi(t["ixseps1"]), zi(t["ixseps2"])
        band = z3.And(x >= z3.If(ix1_ < ix2_, ix1_, ix2_), x < z3.If(ix1_ < ix2_, ix2_, ix1_))
        env.claim("bout_decoding_equals_hypnotoad_adjacency_outside_intersep_band", ZB(z3.Implies(z3.And(dom, z3.Not(band)), H == Bf)))
        env.claim("ny_written_is_ny_noguards", ZB(nyng + z3.IntVal(0) == sum_noguards(mesh)))
        # (e) chi is NaN exactly on the non-core part of the y range (positions in the file arrays, which include guard cells)
        yf = zi(env.int("y_file"))
        in_core = z3.BoolVal(False)
        for rid, reg in mesh.regions.items():
            if reg.equilibriumRegion.kind == "X.X":
                _, _, y0, y1 = region_box(mesh, rid)
                in_core = z3.Or(in_core, z3.And(yf >= y0, yf < y1))
        names = {k: (v if env.mode != "sym" else (v if isinstance(v, SymInt) else SymInt(zi(v)))) for k, v in t.items()}
        names["myg"] = g
        j11_, j21_, j12_, j22_, nyi_ = [zi(t[k]) for k in ("jyseps1_1", "jyseps2_1", "jyseps1_2", "jyseps2_2", "ny_inner")]
        masked = z3.BoolVal(False)
        for lo, hi in chi_mask_slices(names):
            lo_e = z3.IntVal(0) if lo is None else zi(lo)
            hi_e = ny if hi is None else zi(hi)
            masked = z3.Or(masked, z3.And(yf >= lo_e, yf < hi_e))
        if any(reg.equilibriumRegion.kind == "X.X" for reg in mesh.regions.values()):
            env.claim("chi_nan_mask_is_exactly_the_non_core_y_range", ZB(z3.Implies(z3.And(yf >= 0, yf < ny), masked == z3.Not(in_core))))
        # (f) theta: zero at the lower face of the first core cell, increases by dy per cell round the core (continuous across the upper
        # branch cut of a double null) and reaches ny_core*dy = 2*pi after the last core cell.  y is affine in the file index
        # (obligation y_coordinate_affine), so these are statements about the index expressions of the current source.
        core_regs = [reg for reg in mesh.regions.values() if reg.equilibriumRegion.kind == "X.X"]
        if core_regs or kind == "circular_core":
            th = {k: zi(v) for k, v in theta_index_exprs(names).items()}
            ny_core = zi(mesh.ny_core) if hasattr(mesh, "ny_core") else None
            if ny_core is None:
                raise core.HarnessError("mesh.ny_core missing")
            F = lambda yy: file_index(t, g, yy)   # noqa: E731
            env.claim("theta_zero_at_lower_face_of_first_core_cell", ZB(th["zero"] == F(j11_ + 1)))
            dn_kind = kind in ("cdn", "ldn", "udn")
            shift = (th["A"] - th["B"]) if dn_kind else z3.IntVal(0)
            if dn_kind:
                env.claim("theta_shift_starts_at_the_outer_block_including_its_target_guard_cells", ZB(th["start"] == nyi_ + 2 * g))
                env.claim("theta_continuous_across_the_upper_branch_cut", ZB(shift == F(j12_ + 1) - F(j21_) - 1))
            env.claim("theta_is_ny_core*dy(=2pi)_at_the_upper_face_of_the_last_core_cell", ZB(F(j22_) + 1 - th["zero"] - shift == ny_core))
        # (without a closed-field-line region ShiftAngle is NaN everywhere and chi = 2*pi*zShift/ShiftAngle is NaN without any mask)
        # (d) ordering
        j11, j21, j12, j22, nyi = [zi(t[k]) for k in ("jyseps1_1", "jyseps2_1", "jyseps1_2", "jyseps2_2", "ny_inner")]
        ix1, ix2 = zi(t["ixseps1"]), zi(t["ixseps2"])
        if kind in ("circular_core", "circular_limiter"):
            env.claim("topology_indices_in_range", ZB(z3.And(j11 >= -1, j11 <= j21, j21 <= j12, j12 <= j22, j22 <= nyng - 1)))
            env.claim("ixseps_core_only_or_sol_only", ZB(z3.And(ix1 == ix2, (ix1 == nx) if kind == "circular_core" else (ix1 <= 0))))
        elif kind == "xpoint":
            # four legs, no core: both "X-points" of BOUT++'s description coincide, the private regions are x < ixseps1 = ixseps2
            env.claim("ordering_isolated_xpoint", ZB(z3.And(j11 >= 0, j11 == j21, j21 < nyi - 1, nyi - 1 < j12, j12 == j22, j22 < nyng - 1)))
            env.claim("ixseps_isolated_xpoint", ZB(z3.And(ix1 == ix2, ix1 >= 1, ix1 < nx)))
        elif kind in ("lsn", "usn"):
            env.claim("ordering_single_null", ZB(z3.And(j11 >= -1, j11 < j21, j21 == j12, j12 <= j22, j22 <= nyng - 1)))
            env.claim("ixseps_single_null", ZB(z3.And(ix1 >= 1, ix1 < nx, ix2 == nx)))
        else:
            env.claim("ordering_double_null", ZB(z3.And(j11 >= -1, j11 < j21, j21 < nyi - 1 + 1, nyi - 1 < j12, j21 < j12, j12 < j22, j22 <= nyng - 1)))
            phys_lower_first = (kind in ("cdn", "ldn"))
            if kind == "cdn":
                env.claim("ixseps_cdn_equal", ZB(z3.And(ix1 == ix2, ix1 >= 1, ix1 < nx)))
            else:
                # the X-point whose legs are the first and last y-blocks is BOUT++'s 'lower' one (ixseps1)
                first_is_primary = (kind == "ldn") != suo
                env.claim("ixseps_order_matches_primary_xpoint", ZB((ix1 < ix2) if first_is_primary else (ix1 > ix2)))
                env.claim("ixseps_in_range", ZB(z3.And(ix1 >= 1, ix1 < nx, ix2 >= 1, ix2 < nx)))
    return body


def sum_noguards(mesh):
    return z3.Sum([zi(r.ny_noguards) for r in mesh.equilibrium.regions.values()])


ENC = ["hypnotoad.cases.tokamak:TokamakEquilibrium.describeSingleNull", "hypnotoad.cases.tokamak:TokamakEquilibrium.describeDoubleNull",
       "hypnotoad.cases.tokamak:TokamakEquilibrium.createRegionObjects", "hypnotoad.core.equilibrium:Equilibrium.makeConnection",
       "hypnotoad.core.equilibrium:EquilibriumRegion.ny", "hypnotoad.core.mesh:Mesh.__init__", "hypnotoad.core.mesh:Mesh.makeRegions",
       "hypnotoad.core.mesh:BoutMesh.__init__", "hypnotoad.core.mesh:BoutMesh.writeGridfile"]

for _kind in ("lsn", "usn", "cdn", "ldn", "udn"):
    for _g in (0, 1, 2, 3, 4):
        for _suo in (False, True):
            if _suo and _kind in ("usn", "lsn") and _g not in (0, 2):
                continue  # start_at_upper_outer is documented for double null only: with a single null the grid must be the standard one (or be refused)
            OBLIGATIONS.append(Ob(
                "topology_%s_guards%d%s" % (_kind, _g, "_start_upper_outer" if _suo else ""), _mk(_kind, _g, _suo),
                tier="quick" if _g in (0, 2) else "thorough", family="topology:" + _kind,
                desc="tiling, symmetric equal-size connections, BOUT++ decoding of ixseps/jyseps/ny_inner == hypnotoad adjacency, index ordering",
                encodes=ENC, stubs=["findLegs", "coreRegionToRegion", "segmentsWithPsivals", "MeshRegion -> record", "getRegridded -> identity"],
                bounds="all sizes >= 1 symbolic (unbounded), y_boundary_guards=%d" % _g))

for _kind in ("circular_core", "circular_limiter"):
    for _g in (0, 2):
        if _kind == "circular_core" and _g:
            continue  # a core-only grid has no targets, hence no guard cells in the arrays; how BOUT++ reads y_boundary_guards>0 there is not modelled
        OBLIGATIONS.append(Ob("topology_%s_guards%d" % (_kind, _g), _mk(_kind, _g), tier="quick", family="topology:" + _kind,
                              desc="circular geometry: tiling, connections, BOUT++ decoding of the written integers == hypnotoad adjacency (periodic core / limiter targets), index ranges, chi mask",
                              encodes=["hypnotoad.cases.circular:CircularEquilibrium.makeRegion"] + ENC[3:], stubs=["psi_r", "MeshRegion -> record", "psi_vals -> placeholder"],
                              bounds="nx, ny >= 1 symbolic, y_boundary_guards=%d" % _g))

for _g in (0, 1, 2, 3):
    OBLIGATIONS.append(Ob("topology_xpoint_guards%d" % _g, _mk("xpoint", _g), tier="quick" if _g in (0, 2) else "thorough", family="topology:xpoint",
                          desc="isolated X-point with four legs on the wall (TORPEX): tiling, connections, BOUT++ decoding of the written integers == hypnotoad adjacency, ordering",
                          encodes=["hypnotoad.cases.torpex:TORPEXMagneticField.makeRegions"] + ENC[3:],
                          stubs=["findRoots_1d", "wallPosition", "wallVector", "getRefined -> identity", "getSmoothMonotonicGridFunc/make1dGrid -> placeholder", "MeshRegion -> record"],
                          bounds="nx_core, nx_sol and the four leg ny >= 1 symbolic (unbounded), y_boundary_guards=%d" % _g))

for _k in ("lsn", "usn", "cdn", "ldn", "udn"):
    for _ps in (1.0, -1.0):
        OBLIGATIONS.append(Ob("xpoint_markers_%s%s" % (_k, "" if _ps > 0 else "_psi_decreasing"), _mk_xpoint_markers(_k, _ps), tier="quick", family="descriptor",
                              encodes=["hypnotoad.cases.tokamak:TokamakEquilibrium.describeSingleNull", "hypnotoad.cases.tokamak:TokamakEquilibrium.describeDoubleNull"],
                              desc="each region end that touches an X-point carries that X-point's marker at the radial boundary on its separatrix and nowhere else",
                              bounds="real descriptors with symbolic sizes; %s" % _k, max_paths=400))
OBLIGATIONS.append(Ob("global_x_index_of_shared_contours", ob_global_xind, tier="quick", family="global index",
                      encodes=["hypnotoad.core.mesh:MeshRegion.globalXInd"],
                      desc="a contour shared by two radially adjacent regions has one global x index from both sides; 0 on the separatrix; consecutive",
                      bounds="3 radial segments with symbolic sizes >= 1; separatrix after 0..3 segments", max_paths=40))
for _lw in (True, False):
    OBLIGATIONS.append(Ob("shared_contour_redistributed_identically_%s_end" % ("lower" if _lw else "upper"), _mk_shared_contour_direction(_lw), tier="quick", family="shared edges",
                          encodes=["hypnotoad.core.mesh:MeshRegion.distributePointsNonorthogonal"],
                          desc="non-orthogonal grids: the surface direction used for the perpendicular spacing of a contour shared by two radially adjacent regions "
                               "(not the primary separatrix) is the same from both sides, so both regions put the same points on it",
                          bounds="3 contours per region, end points symbolic", max_paths=10))
for _k, _su in (("lsn", False), ("usn", False), ("cdn", False), ("ldn", False), ("udn", False), ("cdn", True), ("ldn", True), ("udn", True), ("circular_core", False),
                 ("circular_limiter", False)):
    OBLIGATIONS.append(Ob("y_groups_%s%s" % (_k, "_start_upper_outer" if _su else ""), _mk_ygroups(_k, 0, _su), tier="quick", family="y groups",
                          encodes=["hypnotoad.core.mesh:Mesh.makeRegions"],
                          desc="groups of y-connected regions: connection order, open chains from the lower target, the periodic core chain from its first region in y-index order",
                          bounds="real constructor on symbolic sizes; %s" % _k, max_paths=400))
import harness.c01 as _c01  # noqa: E402
OBLIGATIONS.append(Ob("shared_y_edge_points_coincide", _c01._mk_rzboundary(True), tier="quick", family="getRZBoundary",
                      desc="after getRZBoundary the points on the y-edge shared with the upper neighbour coincide with the neighbour's (both coordinates, ylow and corners)",
                      encodes=["hypnotoad.core.mesh:MeshRegion.getRZBoundary"], bounds="nx=1, ny=2, all coordinates symbolic"))
OBLIGATIONS.append(Ob("global_index_map_of_output_arrays", _c01.ob_global_arrays, tier="quick", family="addFromRegions", encodes=["hypnotoad.core.mesh:BoutMesh.geometry"],
                      desc="the region_indices slices place every region value (all locations and corner variants) at its global index", bounds="2x2 block layout, all values symbolic"))
OBLIGATIONS.append(Ob("y_coordinate_affine", ob_y_coordinate_affine, tier="quick", family="theta",
                      desc="y-coord is affine in the file index for uniform dy: centre k*dy, lower faces (k-1/2)*dy", encodes=["hypnotoad.core.mesh:BoutMesh.writeGridfile"],
                      bounds="nx=2, ny=4, dy symbolic"))


def _xarrays_from_regions(env):
    # resolved at call time: harness.c06 imports harness.c02, which imports this module's siblings (no import cycle at load time)
    import harness.c06 as m
    return m.ob_xarrays_from_regions(env)


OBLIGATIONS.append(Ob("chi_denominator_defined_on_closed_surfaces", _xarrays_from_regions, tier="quick", family="theta",
                      desc="ShiftAngle (the denominator of chi) is collected at centre AND xlow for the core y-group, wherever the core sits in y: chi and chi_xlow are defined on closed field lines (shared with C06)",
                      encodes=["hypnotoad.core.mesh:BoutMesh.geometry"], bounds="4 regions in 3 y-groups, values symbolic"))
