"""C10 - poloidal spacing functions: real EquilibriumRegion.getMonotonicPoloidalDistanceFunc / getSqrtPoloidalDistanceFunc /
getLinearPoloidalDistanceFunc evaluated (through numpy.piecewise) on symbolic reals and on jets; _checkMonotonic and
PsiContour.get_distance guard contracts."""
import types

import numpy
import z3

from symx import core
from symx.core import SymReal, SymBool, implies
from symx.jets import Jet1
from symx.npproxy import patched
from symx.runner import registry, Ob
from harness.common import sym_numpy, PROXY

import hypnotoad.core.equilibrium as eqm

OBLIGATIONS, obligation = registry()

META = {
    "explanation": "Real spacing-function constructors run with symbolic length L>0, N = w^2*N_norm (w>0 real, so that sqrt(N/N_norm)=w), N_norm>0 and "
                   "symbolic end-spacing parameters; the returned closures are evaluated through numpy.piecewise at 0, N, symbolic i and on jets.",
    "bounds": "all parameters real and unbounded (positive where the option is documented positive); index i real; "
              "_checkMonotonic/get_distance: 4-5 index points",
    "out": "interior monotonicity of the sqrt family (the code only guards the ends; _checkMonotonic is the run-time guard, whose contract is decided); "
           "end gradients of sqrt cases with a singular coefficient a != 0 at that end; interior positivity of ds/di in the concave monotonic case (solver unknown); accuracy of the interpolated s_of_sperp (scipy interp1d; its table is checked); order of points on a real surface",
    "assumptions": ["brentq -> root contract (concave monotonic case)", "log/exp uninterpreted: log(1)=0, log(1/x)=-log(x), exp>0, exp(0)=1",
                    "float literals idealised"],
}


def _region():
    r = eqm.EquilibriumRegion.__new__(eqm.EquilibriumRegion)
    r.user_options = types.SimpleNamespace(sfunc_checktol=1.0e-13)
    return r


def _params(env):
    L = env.real("L", pos=True)
    w = env.real("w", pos=True)
    Nn = env.real("N_norm", pos=True)
    N = w * w * Nn
    if env.mode == "sym":
        env.sqrt_hints = [core.lift_real(w)]
    return L, w, Nn, N


def _brentq_stub(env, roots):
    def brentq(f, lo, hi, **kw):
        a = env.real("root%d" % len(roots), lo=lo, hi=hi)
        roots.append(a)
        val = f(a)
        env.add_uf_axioms()
        env.assume(val == 0, "brentq returns a root")
        return a
    return brentq


def _call(env, fn, *a, **k):
    roots = []
    if env.mode == "sym":
        with sym_numpy(env, eqm), patched((eqm, "brentq", _brentq_stub(env, roots))):
            f = fn(*a, **k)
    else:
        f = fn(*a, **k)
    return f, roots


def _ev(env, f, x):
    if env.mode == "sym":
        with sym_numpy(env, eqm):
            r = f(x)
        env.add_uf_axioms()
        if isinstance(r, numpy.ndarray):
            r = r.item()
        return r
    return float(f(numpy.float64(x)))


def _jet(env, f, x, h=1e-6):
    if env.mode == "sym":
        j = Jet1.lift(_ev(env, f, Jet1(x, 1, 0)))
        return j.v, j.d, j.dd
    v = _ev(env, f, x)
    return v, (_ev(env, f, x + h) - _ev(env, f, x - h)) / (2 * h), (_ev(env, f, x + h) - 2 * v + _ev(env, f, x - h)) / h ** 2


def ob_monotonic(env, want=None):
    L, w, Nn, N = _params(env)
    dl, du = env.real("d_lower", pos=True), env.real("d_upper", pos=True)
    if want is not None:
        concave_cond = L < 0.5 * (du + dl) * N / Nn - 1.0e-8 * L
        env.assume(concave_cond if want == "concave" else (~concave_cond if env.mode == "sym" else not concave_cond), "case selection")
    # z3 5.x in-process overruns its time limits on these UF+NRA queries (nlsat does not poll the interrupt); the system z3 4.8.12
    # binary decides them in seconds and runs as a subprocess with a hard limit: ask it first
    env.external_first = env.external_only = True
    r = _region()
    try:
        f, roots = _call(env, r.getMonotonicPoloidalDistanceFunc, L, N, Nn, d_lower=dl, d_upper=du)
    except ValueError:
        env.tag("refused")
        return
    if env.mode == "sym":
        case = "concave" if roots else "convex"
    else:
        case = "concave" if L < 0.5 * (du + dl) * N / Nn - 1.0e-8 * L else "convex"
    env.tag(case)
    env.witness("returned_" + case)
    env.claim_eq(case + ":s(0)=0", _ev(env, f, 0 * N), 0)
    env.claim_eq(case + ":s(N)=L", _ev(env, f, N), L)
    if env.mode == "sym" or case == "convex":
        _, d0, _ = _jet(env, f, 0 * N)
        _, dN, _ = _jet(env, f, N)
        env.claim_eq(case + ":ds/diN(0)=d_lower", d0 * Nn, dl)
        env.claim_eq(case + ":ds/diN(N)=d_upper", dN * Nn, du)
    # extrapolations are the straight lines with the end gradients
    im = env.real("i_below", hi=-0.001)
    ia = env.real("i_above_offset", lo=0.001)
    env.claim_eq(case + ":below_0_linear_with_d_lower", _ev(env, f, im), dl * im / Nn)
    env.claim_eq(case + ":above_N_linear_with_d_upper", _ev(env, f, N + ia), L + du * ia / Nn)
    # strictly increasing on [0,N]
    i = env.real("i", lo=0)
    env.assume(i <= N, "i <= N")
    if env.mode == "sym":
        _, di, _ = _jet(env, f, i)
        if case == "convex":
            env.claim("convex:ds/di>0_on_[0,N]", di > 0)
        else:
            # positivity of l1/(iN+l2)-l3 + l1/(r2+W-iN)-r3 on [0,W] needs the root relations of l2, r2 (sqrt) and l3, r3: z3
            # returns unknown within the budget, so it is NOT claimed (the code's own run-time guards l1..r3 > 0 are on the path)
            env.notes.append("concave case: ds/di>0 on [0,N] not decided (nlsat unknown)")
    # resolution consistency: (2N, 2N_norm) at 2i == (N, N_norm) at i
    if case == "convex":
        f2, r2 = _call(env, r.getMonotonicPoloidalDistanceFunc, L, 2 * N, 2 * Nn, d_lower=dl, d_upper=du)
        if not r2:
            env.claim_eq("convex:nesting", _ev(env, f2, 2 * i), _ev(env, f, i))


def _mk_sqrt(has_bl, has_al, has_bu, has_au):
    def body(env):
        L, w, Nn, N = _params(env)
        kw = {}
        if has_bl:
            kw["b_lower"] = env.real("b_lower", pos=True)
        if has_al:
            kw["a_lower"] = env.real("a_lower", lo=0)
        if has_bu:
            kw["b_upper"] = env.real("b_upper", pos=True)
        if has_au:
            kw["a_upper"] = env.real("a_upper", lo=0)
        r = _region()
        try:
            f, _ = _call(env, r.getSqrtPoloidalDistanceFunc, L, N, Nn, **kw)
        except ValueError as e:
            env.tag("refused")
            return
        env.tag("returned")
        env.witness("returned")
        env.claim_eq("s(0)=0", _ev(env, f, 0 * N), 0)
        env.claim_eq("s(N)=L", _ev(env, f, N), L)
        al0 = (not has_al) or (env.mode == "sym" and env.identical(kw["a_lower"], 0)) or (env.mode != "sym" and kw["a_lower"] == 0)
        au0 = (not has_au) or (env.mode == "sym" and env.identical(kw["a_upper"], 0)) or (env.mode != "sym" and kw["a_upper"] == 0)
        # end gradients in units of the normalised index, where that end has no singular sqrt term
        if env.mode == "sym":
            lower_regular = not has_al or _is_zero_on_path(env, kw["a_lower"])
            upper_regular = not has_au or _is_zero_on_path(env, kw["a_upper"])
            if has_bl and lower_regular and (not has_au or _is_zero_on_path(env, kw["a_upper"]) or True):
                _, d0, _ = _jet(env, f, 0 * N)
                env.claim_eq("ds/diN(0)=b_lower", d0 * Nn, kw["b_lower"])
            if has_bu and upper_regular:
                _, dN, _ = _jet(env, f, N)
                env.claim_eq("ds/diN(N)=b_upper", dN * Nn, kw["b_upper"])
        # resolution consistency
        i = env.real("i", lo=0)
        env.assume(i <= N, "i<=N")
        f2, _ = _call(env, r.getSqrtPoloidalDistanceFunc, L, 2 * N, 2 * Nn, **kw)
        env.claim_eq("nesting", _ev(env, f2, 2 * i), _ev(env, f, i))
    return body


def _mk_sqrt_mirror(case):
    """a leg and its mirror image (lower/upper end parameters exchanged) get mirror-image spacing functions: s_mirror(i) = L - s(N - i), on the index
    range the function is used for, INCLUDING the guard-cell range beyond a wall end (where the code continues the function by an exponential)"""
    def body(env):
        L, w, Nn, N = _params(env)
        r = _region()
        if case == "X.wall":
            ax, bx, bt = env.real("a_xpoint", pos=True), env.real("b_xpoint", lo=0), env.real("b_target", pos=True)
            kw_f = dict(b_lower=bx, a_lower=ax, b_upper=bt, a_upper=None)
            kw_g = dict(b_lower=bt, a_lower=None, b_upper=bx, a_upper=ax)
            classes = ("inside", "beyond_upper_end")
        elif case == "wall.wall":
            bl, bu = env.real("b_target_lower", pos=True), env.real("b_target_upper", pos=True)
            kw_f = dict(b_lower=bl, b_upper=bu)
            kw_g = dict(b_lower=bu, b_upper=bl)
            classes = ("inside", "beyond_upper_end", "beyond_lower_end")
        elif case == "X.X":
            al, au, bl, bu = env.real("a_lower", pos=True), env.real("a_upper", pos=True), env.real("b_lower", lo=0), env.real("b_upper", lo=0)
            kw_f = dict(b_lower=bl, a_lower=al, b_upper=bu, a_upper=au)
            kw_g = dict(b_lower=bu, a_lower=au, b_upper=bl, a_upper=al)
            classes = ("inside",)
        else:  # only one end specified
            al, bl = env.real("a_lower", lo=0), env.real("b_lower", pos=True)
            kw_f = dict(b_lower=bl, a_lower=al)
            kw_g = dict(b_upper=bl, a_upper=al)
            classes = ("inside", "beyond_upper_end")
        try:
            f, _ = _call(env, r.getSqrtPoloidalDistanceFunc, L, N, Nn, **kw_f)
        except ValueError:
            f = None
        try:
            g, _ = _call(env, r.getSqrtPoloidalDistanceFunc, L, N, Nn, **kw_g)
        except ValueError:
            g = None
        env.claim("a_leg_is_refused_iff_its_mirror_image_is", (f is None) == (g is None))
        if f is None or g is None:
            env.tag("refused")
            return
        env.witness("both_built")
        which = classes[env.choose(len(classes))]
        env.tag(which)
        if which == "inside":
            t = env.real("t_inside", lo=0.01, hi=0.99)
            i = t * N
        elif which == "beyond_upper_end":
            i = N + env.real("offset_beyond_end", lo=0.01, hi=4)
        else:
            i = 0 * N - env.real("offset_beyond_end", lo=0.01, hi=4)
        env.claim_eq("s_mirror(N-i)=L-s(i):" + which, _ev(env, g, N - i), L - _ev(env, f, i))
    return body



def ob_monotonic_mirror(env):
    """monotonic spacing (convex case): exchanging d_lower and d_upper gives the mirror-image function, also beyond both ends (linear continuation)"""
    L, w, Nn, N = _params(env)
    dl, du = env.real("d_lower", pos=True), env.real("d_upper", pos=True)
    concave_cond = L < 0.5 * (du + dl) * N / Nn - 1.0e-8 * L
    env.assume(~concave_cond if env.mode == "sym" else not concave_cond, "convex case")
    r = _region()
    f, _ = _call(env, r.getMonotonicPoloidalDistanceFunc, L, N, Nn, d_lower=dl, d_upper=du)
    g, _ = _call(env, r.getMonotonicPoloidalDistanceFunc, L, N, Nn, d_lower=du, d_upper=dl)
    env.witness("both_built")
    which = ("inside", "beyond_upper_end", "beyond_lower_end")[env.choose(3)]
    env.tag(which)
    if which == "inside":
        i = env.real("t_inside", lo=0.01, hi=0.99) * N
    elif which == "beyond_upper_end":
        i = N + env.real("offset_beyond_end", lo=0.01, hi=4)
    else:
        i = 0 * N - env.real("offset_beyond_end", lo=0.01, hi=4)
    env.claim_eq("s_mirror(N-i)=L-s(i):" + which, _ev(env, g, N - i), L - _ev(env, f, i))


def _is_zero_on_path(env, x):
    r, _, _ = env._check(core.lift_real(x) != 0)
    return r == "unsat"


def ob_linear(env):
    L, w, Nn, N = _params(env)
    r = _region()
    f, _ = _call(env, r.getLinearPoloidalDistanceFunc, L, N)
    i = env.real("i")
    env.witness("returned")
    env.claim_eq("s(0)=0", _ev(env, f, 0 * N), 0)
    env.claim_eq("s(N)=L", _ev(env, f, N), L)
    if env.mode == "sym":
        _, d, _ = _jet(env, f, i)
        env.claim("increasing", d > 0)
    f2, _ = _call(env, r.getLinearPoloidalDistanceFunc, L, 2 * N)
    env.claim_eq("nesting", _ev(env, f2, 2 * i), _ev(env, f, i))
    g, _ = _call(env, r.getSqrtPoloidalDistanceFunc, L, N, Nn)
    env.claim_eq("sqrt_without_parameters_is_linear", _ev(env, g, i), _ev(env, f, i))


def ob_checkmonotonic(env):
    """returns  =>  s(i_k) <= s(i_k+1) on the whole index grid incl. guard cells; raises otherwise"""
    r = _region()
    r._extend_lower, r._extend_upper, r.ny_noguards, r.name = 1, 1, 1, "stub"
    r.points = []
    n = 1 + 2 * 1 + 1 + 1  # indices -1..3
    vals = [env.real("s%d" % k, lo=-9, hi=9) for k in range(n)]
    arr = numpy.array(vals, dtype=object if env.mode == "sym" else float)
    seen = {}

    def sfunc(ind):
        seen["ind"] = list(ind)
        return arr

    try:
        with sym_numpy(env, eqm):
            r._checkMonotonic([(sfunc, "s")])
    except ValueError:
        env.tag("raised")
        dec = [vals[k + 1] < vals[k] for k in range(n - 1)]
        env.claim("raises_only_if_some_step_decreases", core.sand(*[~d for d in dec]).__invert__() if env.mode == "sym" else any(dec))
        return
    env.tag("returned")
    env.witness("returned")
    env.claim("index_grid_covers_guards", seen["ind"] == [-1.0, 0.0, 1.0, 2.0, 3.0])
    for k in range(n - 1):
        env.claim("returns_implies_nondecreasing", vals[k + 1] >= vals[k])


def ob_get_distance(env):
    """PsiContour.get_distance: returns => distances strictly increasing along the contour"""
    c = eqm.PsiContour.__new__(eqm.PsiContour)
    n = 4
    vals = [env.real("d%d" % k, lo=-9, hi=9) for k in range(n)]
    c._distance = None
    c.points = list(range(n))
    fc = types.SimpleNamespace(getDistance=lambda p: vals[p], distance=None, plot=lambda **k: None)
    c.get_fine_contour = lambda psi: fc
    c.plot = lambda **k: None
    try:
        with sym_numpy(env, eqm):
            d = c.get_distance(psi=None)
    except ValueError:
        env.tag("raised")
        inc = [vals[k + 1] > vals[k] for k in range(n - 1)]
        env.claim("raises_only_if_not_strictly_increasing", ~core.sand(*inc) if env.mode == "sym" else not all(inc))
        return
    env.tag("returned")
    env.witness("returned")
    for k in range(n - 1):
        env.claim("returns_implies_strictly_increasing", d[k + 1] > d[k])


def ob_region_getregridded_wiring(env):
    """EquilibriumRegion.getRegridded: 2*ny_noguards+1 points; 2*y_boundary_guards extra points at an end exactly when that end has no connection (a target)
    in THIS radial segment; the spacing function is made for the distance between the designated start and end points; wrong arguments refused"""
    import hypnotoad.core.equilibrium as eqm_
    guards = env.int("y_boundary_guards", lo=0, hi=4)
    ny = env.int("ny_noguards", lo=1)
    dist = [env.real("dist%d" % k) for k in range(6)]
    for lower_conn, upper_conn in ((None, ("b", 0)), (("a", 0), None), (None, None), (("a", 0), ("b", 0))):
        r = eqm_.EquilibriumRegion.__new__(eqm_.EquilibriumRegion)
        r.user_options = types.SimpleNamespace(y_boundary_guards=guards)
        r.ny_noguards = ny
        r._startInd, r._endInd = 1, 4
        # radial segment 1 is the one asked for; segment 0 has the opposite connections (must not be looked at)
        r.connections = [{"lower": upper_conn, "upper": lower_conn}, {"lower": lower_conn, "upper": upper_conn}]
        r.get_distance = lambda psi=None: dist
        rec = {}
        r.getSfuncFixedSpacing = lambda npts, length, **k: rec.setdefault("sfunc", (npts, length, k)) and "SFUNC"
        r.newRegionFromPsiContour = lambda c: ("region_from", c)
        seen = {}

        def base_getregridded(self, npoints, **kw):
            seen.update(kw, npoints=npoints)
            return "CONTOUR"

        orig = eqm_.PsiContour.getRegridded
        eqm_.PsiContour.getRegridded = base_getregridded
        try:
            out = r.getRegridded(1, psi="PSI", width=7)
            for bad in ("npoints", "extend_lower", "extend_upper", "sfunc"):
                try:
                    r.getRegridded(1, psi="PSI", **{bad: 1})
                    env.claim("caller_cannot_override_%s" % bad, False)
                except ValueError:
                    env.claim("caller_cannot_override_%s" % bad, True)
        finally:
            eqm_.PsiContour.getRegridded = orig
        tag = "lower=%s,upper=%s" % ("target" if lower_conn is None else "joined", "target" if upper_conn is None else "joined")
        env.claim("result_wraps_the_regridded_contour", out == ("region_from", "CONTOUR"))
        env.claim_eq("npoints=2*ny+1:" + tag, seen["npoints"], 2 * ny + 1)
        env.claim_eq("extend_lower=2*guards_iff_lower_end_is_a_target:" + tag, seen["extend_lower"], 2 * guards if lower_conn is None else 0)
        env.claim_eq("extend_upper=2*guards_iff_upper_end_is_a_target:" + tag, seen["extend_upper"], 2 * guards if upper_conn is None else 0)
        env.claim("psi_and_extra_arguments_passed_on", seen["psi"] == "PSI" and seen["width"] == 7 and seen["sfunc"] == "SFUNC")
        env.claim_eq("spacing_function_for_2*ny+1_points", rec["sfunc"][0], 2 * ny + 1)
        env.claim_eq("spacing_function_for_the_distance_between_the_designated_end_points", rec["sfunc"][1], dist[4] - dist[1])
    env.witness("wired")


def ob_spacing_wiring(env):
    """getSpacings / getTargetParameter / getSfuncFixedSpacing: an X-point end gets the X-point spacing parameters (sqrt: a = xpoint length, b = 0) - the
    same for the two regions that meet there, so the spacing is continuous across the join - a wall end gets the target parameters of ITS OWN leg;
    the constructors receive them in their roles together with the contour length, npoints-1 and N_norm, and the result goes through _checkMonotonic"""
    legs = ("inner_lower", "inner_upper", "outer_upper", "outer_lower")
    uo = {"xpoint_poloidal_spacing_length": env.real("xpoint_len"), "N_norm_prefactor": env.real("N_norm_prefactor", pos=True),
          "orthogonal": True, "poloidalfunction_diagnose": False, "poloidal_spacing_method": "sqrt"}
    no = {"nonorthogonal_xpoint_poloidal_spacing_length": env.real("no_xpoint_len"), "nonorthogonal_xpoint_poloidal_spacing_range": env.real("no_xpoint_range"),
          "nonorthogonal_xpoint_poloidal_spacing_range_inner": env.real("no_xpoint_range_inner"),
          "nonorthogonal_xpoint_poloidal_spacing_range_outer": env.real("no_xpoint_range_outer")}
    for leg in legs:
        uo["target_%s_poloidal_spacing_length" % leg] = env.real("target_len_" + leg)
        no["nonorthogonal_target_%s_poloidal_spacing_length" % leg] = env.real("no_target_len_" + leg)
        for suf in ("", "_inner", "_outer"):
            no["nonorthogonal_target_%s_poloidal_spacing_range%s" % (leg, suf)] = env.real("no_target_range%s_%s" % (suf, leg))
    ny_total = env.int("ny_total", lo=1)
    L = env.real("contour_length", pos=True)
    npoints = env.int("npoints", lo=2)
    cases = [("inner_lower_divertor", "wall.X", "inner_lower"), ("inner_upper_divertor", "X.wall", "inner_upper"), ("outer_upper_divertor", "wall.X", "outer_upper"),
             ("outer_lower_divertor", "X.wall", "outer_lower"), ("inner_core", "X.X", None), ("core", "X.X", None)]
    for name, kind, leg in cases:
        r = eqm.EquilibriumRegion.__new__(eqm.EquilibriumRegion)
        r.name, r.kind, r.ny_total = name, kind, ny_total
        r.user_options, r.nonorthogonal_options = types.SimpleNamespace(**uo), types.SimpleNamespace(**no)
        sp = r.getSpacings()
        for end, k in (("lower", kind.split(".")[0]), ("upper", kind.split(".")[1])):
            if k == "X":
                env.claim("xpoint_end:sqrt_a=xpoint_length,b=0", sp["sqrt_a_" + end] is uo["xpoint_poloidal_spacing_length"] and sp["sqrt_b_" + end] == 0.0)
                env.claim("xpoint_end:monotonic_d=nonorthogonal_xpoint_length", sp["monotonic_d_" + end] is no["nonorthogonal_xpoint_poloidal_spacing_length"])
                env.claim("xpoint_end:ranges", sp["nonorthogonal_range_" + end] is no["nonorthogonal_xpoint_poloidal_spacing_range"]
                          and sp["nonorthogonal_range_%s_inner" % end] is no["nonorthogonal_xpoint_poloidal_spacing_range_inner"]
                          and sp["nonorthogonal_range_%s_outer" % end] is no["nonorthogonal_xpoint_poloidal_spacing_range_outer"])
            else:
                env.claim("wall_end:sqrt_a=None,b=target_length_of_this_leg:" + name, sp["sqrt_a_" + end] is None
                          and sp["sqrt_b_" + end] is uo["target_%s_poloidal_spacing_length" % leg])
                env.claim("wall_end:monotonic_d=nonorthogonal_target_length_of_this_leg:" + name,
                          sp["monotonic_d_" + end] is no["nonorthogonal_target_%s_poloidal_spacing_length" % leg])
                env.claim("wall_end:ranges_of_this_leg:" + name, sp["nonorthogonal_range_" + end] is no["nonorthogonal_target_%s_poloidal_spacing_range" % leg]
                          and sp["nonorthogonal_range_%s_inner" % end] is no["nonorthogonal_target_%s_poloidal_spacing_range_inner" % leg]
                          and sp["nonorthogonal_range_%s_outer" % end] is no["nonorthogonal_target_%s_poloidal_spacing_range_outer" % leg])
        # the constructors get the parameters in their roles
        rec = {}
        r.getSqrtPoloidalDistanceFunc = lambda *a, **k: rec.setdefault("sqrt", (a, k)) and "SQRT"
        r.getMonotonicPoloidalDistanceFunc = lambda *a, **k: rec.setdefault("mono", (a, k)) and "MONO"
        r.getLinearPoloidalDistanceFunc = lambda *a, **k: rec.setdefault("lin", (a, k)) and "LIN"
        checked = []
        r._checkMonotonic = lambda lst, total_distance=None, **k: checked.append((lst, total_distance))
        f1 = r.getSfuncFixedSpacing(npoints, L, method="sqrt")
        f2 = r.getSfuncFixedSpacing(npoints, L, method="monotonic")
        f3 = r.getSfuncFixedSpacing(npoints, L, method="linear")
        Nn = uo["N_norm_prefactor"] * ny_total
        (a, k) = rec["sqrt"]
        env.claim("sqrt_constructor_arguments:" + name, a[0] is L and k == {"b_lower": sp["sqrt_b_lower"], "a_lower": sp["sqrt_a_lower"], "b_upper": sp["sqrt_b_upper"], "a_upper": sp["sqrt_a_upper"]}
                  and all(k[q] is sp["sqrt_" + q] for q in ("b_lower", "a_lower", "b_upper", "a_upper")))
        env.claim_eq("sqrt_constructor_N=npoints-1", a[1], npoints - 1)
        env.claim_eq("sqrt_constructor_N_norm=prefactor*ny_total", a[2], Nn)
        (a, k) = rec["mono"]
        env.claim("monotonic_constructor_arguments:" + name, a[0] is L and k["d_lower"] is sp["monotonic_d_lower"] and k["d_upper"] is sp["monotonic_d_upper"] and len(k) == 2)
        env.claim_eq("monotonic_constructor_N=npoints-1", a[1], npoints - 1)
        env.claim_eq("monotonic_constructor_N_norm=prefactor*ny_total", a[2], Nn)
        (a, k) = rec["lin"]
        env.claim("linear_constructor_arguments", a[0] is L and not k)
        env.claim_eq("linear_constructor_N=npoints-1", a[1], npoints - 1)
        env.claim("every_fixed_spacing_function_goes_through_checkMonotonic", (f1, f2, f3) == ("SQRT", "MONO", "LIN") and [c[0][0][0] for c in checked] == ["SQRT", "MONO", "LIN"]
                  and all(c[1] is L for c in checked))
    env.witness("wired")


ENCM = ["hypnotoad.core.equilibrium:EquilibriumRegion.getMonotonicPoloidalDistanceFunc"]


# ---- combineSfuncs: the weights that blend the fixed-spacing functions of the two ends with the orthogonal one ------------------------------
class _ExpRecorder(types.ModuleType):
    """stands for `numpy` inside hypnotoad.core.equilibrium while a combined spacing function is evaluated: records the arguments of exp;
    symbolic mode: exp(a) is a fresh real w with 0 < w <= 1 for a <= 0, w = 1 iff a = 0 (all that the claims need from exp)"""
    def __init__(self, env, base):
        super().__init__("numpy_exp_recorder")
        self.__dict__.update(_env=env, _base=base, args=[])

    def __getattr__(self, k):
        return getattr(self._base, k)

    def exp(self, a):
        env = self._env
        x = a.item() if isinstance(a, numpy.ndarray) and a.size == 1 else a
        self.args.append(x)
        if env.mode != "sym":
            return numpy.exp(a)
        w = SymReal(env.freshreal("expw"))
        xe = core.lift_real(x)
        env.add(z3.And(w.e > 0, z3.Implies(xe <= 0, w.e <= 1), z3.Implies(xe == 0, w.e == 1), z3.Implies(xe < 0, w.e < 1), z3.Implies(xe > 0, w.e > 1)))
        if isinstance(a, numpy.ndarray):
            out = numpy.empty(a.shape, dtype=object)
            out[...] = w
            return out
        return w


def _mk_combine(lower_given, upper_given, orth_given, ix):
    NX, SEP = [2, 3], 1            # nxInsideSeparatrix = 5, nxOutsideSeparatrix = 7 (both count the separatrix point)
    NY = 3

    def body(env):
        sym = env.mode == "sym"
        env.resolve_abs = False
        r = eqm.EquilibriumRegion.__new__(eqm.EquilibriumRegion)
        pref = env.real("N_norm_prefactor", pos=True)
        r.user_options = types.SimpleNamespace(N_norm_prefactor=pref, sfunc_checktol=1.0e-13)
        r.nonorthogonal_options = types.SimpleNamespace(nonorthogonal_radial_range_power=2.0)
        r.nx, r.separatrix_radial_index, r.ny_noguards, r.ny_total, r.psi = NX, SEP, NY, 11, None
        IL = 2.0 * NY
        Nn = pref * 11
        rng = {}
        for end, given in (("lower", lower_given), ("upper", upper_given)):
            for suffix in ("", "_inner", "_outer"):
                k = "nonorthogonal_range_%s%s" % (end, suffix)
                rng[k] = env.real(k, pos=True) if given else None
        r.getSpacings = lambda: dict(rng)
        L = env.real("L", pos=True)
        contour = types.SimpleNamespace(global_xind=ix, totalDistance=lambda psi=None: L)
        vals = {}

        def stubf(name):
            def f(i):
                key = (name, id(i) if isinstance(i, numpy.ndarray) else i)
                return vals[name]
            f.__name__ = name
            return f
        calls = []

        def fixed(N, dist, method=None, spacing_lower=None, spacing_upper=None):
            calls.append(("fixed", N, dist, method, spacing_lower, spacing_upper))
            return stubf("fixed_%d" % sum(1 for c in calls if c[0] == "fixed"))

        def perp(N, cont, vec, lower, spacing_lower=None, spacing_upper=None):
            calls.append(("perp", N, cont, vec, lower, spacing_lower, spacing_upper))
            return stubf("perp_lower" if lower else "perp_upper"), None
        r.getSfuncFixedSpacing, r.getSfuncFixedPerpSpacing = fixed, perp
        checked = []
        r._checkMonotonic = lambda lst, **kw: checked.append((lst, kw))
        sorth = stubf("orth") if orth_given else None
        vl, vu = "vector_lower", "vector_upper"
        sp_l, sp_u = env.real("spacing_lower", pos=True), env.real("spacing_upper", pos=True)
        try:
            new = r.combineSfuncs(contour, sorth, vl, vu, spacing_lower=sp_l, spacing_upper=sp_u)
        except ValueError:
            env.tag("refused")
            env.claim("refused_only_without_any_range_and_without_orthogonal_function", not lower_given and not upper_given and not orth_given)
            return
        env.witness("combined_function_built")
        # what the component functions were asked for, and the run-time monotonicity guard sees the combined function
        pl = [c for c in calls if c[0] == "perp" and c[4] is True]
        pu = [c for c in calls if c[0] == "perp" and c[4] is False]
        env.claim("fixed_perp_functions_of_both_ends_requested_on_the_half_index_grid_of_this_contour",
                  len(pl) == 1 and len(pu) == 1 and pl[0][1] == 2 * NY + 1 and pu[0][1] == 2 * NY + 1 and pl[0][2] is contour and pu[0][2] is contour
                  and pl[0][3] == vl and pu[0][3] == vu)
        env.claim("end_spacings_passed_on", all(c[5] is sp_l and c[6] is sp_u for c in pl + pu))
        env.claim("combined_function_is_checked_for_monotonicity", len(checked) == 1 and any(f is new for f, _ in checked[0][0])
                  and checked[0][1].get("xind") == ix)
        # expected ranges on this flux surface (quadratic transition from the separatrix value to the inner/outer boundary value)
        xw = (ix / 6.0) ** 2 if ix >= 0 else (-ix / 4.0) ** 2
        far = "_outer" if ix >= 0 else "_inner"
        want = {e: ((1.0 - xw) * rng["nonorthogonal_range_" + e] + xw * rng["nonorthogonal_range_%s%s" % (e, far)]) if g else None
                for e, g in (("lower", lower_given), ("upper", upper_given))}
        fl, fu = "perp_lower", "perp_upper"
        where = env.choose(5)
        env.tag(("below", "at_0", "inside", "at_end", "above")[where])
        i = {0: lambda: env.real("i_below", hi=-0.001), 1: lambda: 0.0 * L, 2: lambda: env.real("i_inside", lo=0.001, hi=IL - 0.001),
             3: lambda: IL + 0.0 * L, 4: lambda: IL + env.real("i_above_offset", lo=0.001)}[where]()
        for n in (fl, fu, "orth"):
            vals[n] = env.real("value_" + n)
        rec = _ExpRecorder(env, PROXY if sym else numpy)
        with patched((eqm, "numpy", rec)):
            arr = numpy.empty(1, dtype=object) if sym else numpy.empty(1)
            arr[0] = i
            out = new(arr)
        env.add_uf_axioms()
        out = out.item() if isinstance(out, numpy.ndarray) else out
        env.witness("combined_function_evaluated")
        a, b, o = vals[fl], vals[fu], vals["orth"]
        both = lower_given and upper_given
        if not lower_given and not upper_given:
            env.claim_eq("without_ranges:orthogonal_function", out, o)
            return
        if not orth_given:
            if both:
                if where == 0:
                    env.claim_eq("initial:below_0=lower_function", out, a)
                elif where == 4:
                    env.claim_eq("initial:above_end=upper_function", out, b)
                elif where == 1:
                    env.claim_eq("initial:at_0=lower_function", out, a)
                elif where == 3:
                    env.claim_eq("initial:at_end=upper_function", out, b)
                else:
                    lo, hi = (a, b)
                    env.claim("initial:between_the_two_fixed_functions", ((out - a) * (out - b)) <= 0)
            else:
                env.claim("initial:single_range_returns_that_end's_function_itself", new.__name__ == (fl if lower_given else fu))
            return
        # weights: arguments of the Gaussians
        k = 0
        if where in (1, 2, 3):
            if lower_given:
                env.claim_eq("lower_weight=exp(-(i/N_norm/range_lower(x))^2)", rec.args[k], -((i / Nn / want["lower"]) ** 2))
                k += 1
            if upper_given:
                env.claim_eq("upper_weight=exp(-((2ny-i)/N_norm/range_upper(x))^2)", rec.args[k], -(((IL - i) / Nn / want["upper"]) ** 2))
        if where == 0:
            env.claim_eq("below_0=" + ("lower_function" if lower_given else "orthogonal_function"), out, a if lower_given else o)
        elif where == 4:
            env.claim_eq("above_end=" + ("upper_function" if upper_given else "orthogonal_function"), out, b if upper_given else o)
        else:
            cands = [o] + ([a] if lower_given else []) + ([b] if upper_given else [])
            if sym:
                ge_min = core.sor(*[out >= c for c in cands])
                le_max = core.sor(*[out <= c for c in cands])
                env.claim("convex_combination_of_the_component_functions", ge_min & le_max)
            else:
                env.claim("convex_combination_of_the_component_functions", min(cands) - 1e-12 <= out <= max(cands) + 1e-12)
            if where == 1 and lower_given:
                # at the lower end the orthogonal function has no weight: whatever it returns, equal fixed functions give their value
                if both:
                    env.assume(a == b)
                env.claim_eq("at_0:value_of_the_fixed_functions(orthogonal_function_has_no_weight)", out, a)
            if where == 3 and upper_given:
                if both:
                    env.assume(a == b)
                env.claim_eq("at_end:value_of_the_fixed_functions(orthogonal_function_has_no_weight)", out, b)
    return body


for _l, _u, _o, _ix in ((True, True, True, 0), (True, True, True, 6), (True, True, True, -4), (True, True, True, 3), (True, True, True, -2),
                        (True, False, True, 3), (False, True, True, -2), (False, False, True, 0),
                        (True, True, False, 0), (True, False, False, 0), (False, True, False, 0), (False, False, False, 0)):
    OBLIGATIONS.append(Ob("combineSfuncs_lower%d_upper%d_orth%d_x%+d" % (_l, _u, _o, _ix), _mk_combine(_l, _u, _o, _ix),
                          tier="quick" if _ix in (0, 3, -2) else "thorough", family="combined non-orthogonal weights",
                          encodes=["hypnotoad.core.equilibrium:EquilibriumRegion.combineSfuncs"],
                          desc="real combineSfuncs with stub component functions: weights (Gaussian arguments with the radially varying range), convexity, "
                               "no weight of the orthogonal function at the ends, continuation beyond the ends, requests to the component constructors, guard wiring",
                          bounds="ny=3, nx=[2,3] (separatrix after the first segment), fixed global x index; symbolic ranges, N_norm prefactor, index position "
                                 "(5 position classes) and component values; radial power 2 (default)", max_paths=60))

def _mk_ssperp(n, start):
    """FineContour.interpSSperp: the perpendicular distance it tabulates against poloidal distance is zero at startInd, non-decreasing along the contour
    (each increment is the absolute value of the true increment of the projection on the normal of `vec`), and the total is taken between the end indices"""
    def body(env):
        sym = env.mode == "sym"
        env.resolve_abs = False
        env.logic = "QF_NRA"
        pts = numpy.empty((n, 2), dtype=object if sym else float)
        for k in range(n):
            pts[k, 0], pts[k, 1] = env.real("R%d" % k), env.real("Z%d" % k)
        v0, v1 = env.real("vec_R"), env.real("vec_Z")
        env.assume((v0 * v0 + v1 * v1) > 0.01)
        dist = numpy.empty(n, dtype=object if sym else float)
        for k in range(n):
            dist[k] = env.real("distance%d" % k)
        fc = types.SimpleNamespace(positions=pts, startInd=start, endInd=n - 1 - (1 if n > 3 else 0), distance=dist)
        got = {}

        def interp1d(x, y, **kw):
            got.update(x=x.copy(), y=y.copy(), kw=kw)
            return "S_OF_SPERP"
        with sym_numpy(env, eqm), patched((eqm, "interpolate", types.SimpleNamespace(interp1d=interp1d))):
            f, total = eqm.FineContour.interpSSperp(fc, [v0, v1])
        env.witness("tabulated")
        sp = got["x"]
        env.claim("returns_the_interpolant_of_distance_against_sperp", f == "S_OF_SPERP" and got["kw"].get("fill_value") == "extrapolate")
        env.claim_eq("sperp_zero_at_startInd", sp[start], 0)
        norm = env.sqrt(core.SymReal(core.lift_real(v0 * v0 + v1 * v1))) if sym else (v0 * v0 + v1 * v1) ** 0.5
        for k in range(n - 1):
            true_inc = ((pts[k + 1, 0] - pts[k, 0]) * (-v1) + (pts[k + 1, 1] - pts[k, 1]) * v0) / norm
            inc = sp[k + 1] - sp[k]
            env.claim("sperp_non_decreasing", inc >= 0)
            env.claim_eq("increment=|increment_of_projection_on_the_normal|:%d" % k, inc, abs(true_inc))
        for k in range(n):
            env.claim_eq("tabulated_distance_measured_from_startInd:%d" % k, got["y"][k], dist[k] - dist[start])
        env.claim_eq("total=sperp(endInd)-sperp(startInd)", total, sp[fc.endInd] - sp[start])
    return body


for _n, _s0 in ((3, 0), (4, 1), (5, 2)):
    OBLIGATIONS.append(Ob("interpSSperp_n%d_start%d" % (_n, _s0), _mk_ssperp(_n, _s0), tier="quick" if _n < 5 else "thorough", family="combined non-orthogonal weights",
                          encodes=["hypnotoad.core.equilibrium:FineContour.interpSSperp"],
                          desc="perpendicular distance table: zero at startInd, non-decreasing, increments = |projection increments|, total between the end indices",
                          bounds="%d contour points with symbolic positions, symbolic direction vector (|vec|^2 > 0.01); scipy interp1d replaced by a recorder" % _n,
                          max_paths=300))


def ob_fixed_perp_wiring(env):
    """getSfuncFixedPerpSpacing: the requested end gradient of the PERPENDICULAR distance is the option value at a wall end and the option value times
    the sine of the angle between the separatrix and the X-point's bounding line at an X-point end; the monotonic constructor receives the total perpendicular
    length, N-1 and N_norm; the result is s_of_sperp after that function"""
    r = eqm.EquilibriumRegion.__new__(eqm.EquilibriumRegion)
    pref, ny_total = env.real("N_norm_prefactor", pos=True), env.int("ny_total", lo=1)
    r.user_options = types.SimpleNamespace(N_norm_prefactor=pref)
    r.ny_total, r.psi = ny_total, "PSI"
    md = {"monotonic_d_lower": env.real("option_d_lower", pos=True), "monotonic_d_upper": env.real("option_d_upper", pos=True)}
    r.getSpacings = lambda: dict(md)
    wall_start, wall_end, given = env.choose(2), env.choose(2), env.choose(2)
    r.wallSurfaceAtStart = (lambda s: None) if wall_start else None
    r.wallSurfaceAtEnd = (lambda s: None) if wall_end else None
    r.sin_angle_at_start, r.sin_angle_at_end = env.real("sin_angle_at_start", lo=0.01, hi=1.0), env.real("sin_angle_at_end", lo=0.01, hi=1.0)
    sl, su = (env.real("spacing_lower", pos=True), env.real("spacing_upper", pos=True)) if given else (None, None)
    tot = env.real("sperp_total", pos=True)
    seen = {}

    def interp(vec, psi=None):
        seen["interp"] = (vec, psi)
        return (lambda x: ("s_of", x)), tot
    contour = types.SimpleNamespace(interpSSperp=interp)

    def mono(length, N, N_norm, *, d_lower, d_upper):
        seen["mono"] = (length, N, N_norm, d_lower, d_upper)
        return lambda i: ("sperp", i)
    r.getMonotonicPoloidalDistanceFunc = mono
    N = env.int("N", lo=2)
    f, g = r.getSfuncFixedPerpSpacing(N, contour, "VEC", True, spacing_lower=sl, spacing_upper=su)
    env.witness("built")
    want_l = sl if given else md["monotonic_d_lower"]
    want_u = su if given else md["monotonic_d_upper"]
    env.claim("perpendicular_table_of_this_contour_for_the_given_direction", seen["interp"] == ("VEC", "PSI"))
    env.claim_eq("length=total_perpendicular_distance", seen["mono"][0], tot)
    env.claim_eq("N=npoints-1", seen["mono"][1], N - 1)
    env.claim_eq("N_norm=prefactor*ny_total", seen["mono"][2], pref * ny_total)
    env.claim_eq("d_lower:wall_end=option,xpoint_end=option*sin(angle)", seen["mono"][3], want_l if wall_start else want_l * r.sin_angle_at_start)
    env.claim_eq("d_upper:wall_end=option,xpoint_end=option*sin(angle)", seen["mono"][4], want_u if wall_end else want_u * r.sin_angle_at_end)
    env.claim("result=s_of_sperp(sperp_func(i))", f("I") == ("s_of", ("sperp", "I")) and g("I") == ("sperp", "I"))


OBLIGATIONS.append(Ob("fixed_perp_spacing_wiring", ob_fixed_perp_wiring, tier="quick", family="combined non-orthogonal weights",
                      encodes=["hypnotoad.core.equilibrium:EquilibriumRegion.getSfuncFixedPerpSpacing"],
                      desc="end gradients of the perpendicular spacing function (sin(angle) factor at X-point ends only), constructor arguments, composition",
                      bounds="8 combinations of wall/X-point ends and given/default spacings; symbolic values", max_paths=20))
OBLIGATIONS.append(Ob("region_getRegridded_wiring", ob_region_getregridded_wiring, tier="quick", family="wiring", encodes=["hypnotoad.core.equilibrium:EquilibriumRegion.getRegridded"],
                      desc="point count, guard-cell extension at target ends of the requested radial segment only, spacing function made for the designated end-to-end distance",
                      stubs=["PsiContour.getRegridded, getSfuncFixedSpacing, newRegionFromPsiContour -> recorders"], bounds="4 connection combinations; ny, guards, distances symbolic"))
OBLIGATIONS.append(Ob("spacing_parameter_wiring", ob_spacing_wiring, tier="quick", family="wiring",
                      encodes=["hypnotoad.core.equilibrium:EquilibriumRegion.getSpacings", "hypnotoad.core.equilibrium:EquilibriumRegion.getTargetParameter",
                               "hypnotoad.core.equilibrium:EquilibriumRegion.getSfuncFixedSpacing"],
                      desc="X-point ends share the X-point spacing parameters (continuity across the join), wall ends use their own leg's target parameters; constructors called with "
                           "length, npoints-1, N_norm and the parameters in their roles; result checked by _checkMonotonic",
                      stubs=["the three constructors and _checkMonotonic -> recorders"], bounds="6 region name/kind combinations, all option values symbolic"))
ENCS = ["hypnotoad.core.equilibrium:EquilibriumRegion.getSqrtPoloidalDistanceFunc"]
for _case in ("convex", "concave"):
    OBLIGATIONS.append(Ob("monotonic_" + _case, (lambda c: (lambda env: ob_monotonic(env, c)))(_case), tier="quick", family="monotonic", encodes=ENCM,
                          stubs=["brentq -> root contract", "log uninterpreted + axioms"],
                          desc="%s case: s(0)=0, s(N)=L, end gradients d_lower/d_upper in normalised index, straight-line extrapolation%s" % (
                              _case, ", ds/di>0 on [0,N], nesting" if _case == "convex" else ""),
                          bounds="L, N_norm, w, d_lower, d_upper > 0 real", timeout_ms=5000, final_timeout_ms=4000, wall_s=900))
for (bl, al, bu, au) in [(1, 0, 0, 0), (1, 1, 0, 0), (0, 0, 1, 0), (0, 0, 1, 1), (1, 0, 1, 0), (1, 1, 1, 0), (1, 0, 1, 1), (1, 1, 1, 1)]:
    nm = "sqrt_%s%s_%s%s" % ("b" if bl else "-", "a" if al else "-", "b" if bu else "-", "a" if au else "-")
    OBLIGATIONS.append(Ob(nm, _mk_sqrt(bl, al, bu, au), tier="quick", family="sqrt", encodes=ENCS, stubs=["exp uninterpreted (extrapolations)"],
                          desc="s(0)=0, s(N)=L, regular end gradients b_lower/b_upper where that end has no singular term, resolution nesting; refusal paths explored",
                          bounds="parameters present: b_lower=%d a_lower=%d b_upper=%d a_upper=%d (a >= 0 incl. the a == 0 sub-cases)" % (bl, al, bu, au),
                          final_timeout_ms=60000, wall_s=600))
OBLIGATIONS.append(Ob("linear", ob_linear, tier="quick", family="linear", encodes=["hypnotoad.core.equilibrium:EquilibriumRegion.getLinearPoloidalDistanceFunc"] + ENCS,
                      desc="s(0)=0, s(N)=L, increasing, nesting; sqrt constructor without parameters is the linear function", bounds="L, N > 0"))
OBLIGATIONS.append(Ob("checkMonotonic_contract", ob_checkmonotonic, tier="quick", family="guards", encodes=["hypnotoad.core.equilibrium:EquilibriumRegion._checkMonotonic"],
                      desc="returns => non-decreasing on the index grid incl. guard cells; raises only if some step decreases", bounds="5 index points, values real"))
OBLIGATIONS.append(Ob("get_distance_contract", ob_get_distance, tier="quick", family="guards", encodes=["hypnotoad.core.equilibrium:PsiContour.get_distance"],
                      desc="returns => strictly increasing distances; raises only otherwise", bounds="4 points", stubs=["FineContour.getDistance -> symbols"]))


# ---------------------------------------------------------------------------------------------
def ob_getregridded(env):
    """PsiContour.getRegridded: the region's end points are kept (same objects) at startInd = extend_lower and endInd = len-1-extend_upper;
    point k is the interpolation at sfunc(k - extend_lower) - sfunc(0)"""
    from hypnotoad.core.equilibrium import Point2D
    sym = env.mode == "sym"
    npoints = 4
    el = env.int("extend_lower", lo=0, hi=2)
    eu = env.int("extend_upper", lo=0, hi=2)
    el, eu = int(el), int(eu)
    env.tag("ext=%d,%d" % (el, eu))
    old = [Point2D(float(k), 0.0) for k in range(5)]
    c = eqm.PsiContour.__new__(eqm.PsiContour)
    c.points = list(old)
    c._startInd, c._endInd = 1, 3
    c._fine_contour, c._distance = None, None
    c._extend_lower = c._extend_upper = 0
    c.user_options = types.SimpleNamespace(refine_width=0.1, refine_atol=1e-8)
    c.temporaryExtend = lambda **k: None
    sb = env.real("sfunc0", lo=-1, hi=1)
    slope = env.real("slope", lo=0.5, hi=2)

    def sfunc(i):
        return sb + slope * i

    fine = types.SimpleNamespace(distance=numpy.array([0.0, 1.0, 2.0, 1000.0]), startInd=1, extend_lower_fine=0, extend_upper_fine=0)
    fine.distance[0] = -1000.0
    fine.interpFunction = lambda: (lambda s: ("interp", s))
    fine.extend = lambda **k: (_ for _ in ()).throw(core.HarnessError("fine contour extension not expected"))
    c.get_fine_contour = lambda psi=None: setattr(c, "_fine_contour", fine) or fine

    def new_from_self(points=None, psival=None):
        n = eqm.PsiContour.__new__(eqm.PsiContour)
        n.points = list(points)
        n._startInd, n._endInd = 0, len(points) - 1
        n._fine_contour, n._distance = None, None
        n._extend_lower = n._extend_upper = 0
        n.user_options = c.user_options
        n.refine = lambda *a, **k: None
        n.checkFineContourExtend = lambda **k: None
        n.get_fine_contour = lambda psi=None: fine
        return n

    c.newContourFromSelf = new_from_self
    with sym_numpy(env, eqm):
        new = c.getRegridded(npoints, psi=None, sfunc=sfunc, extend_lower=el, extend_upper=eu, refine=False)
    env.witness("regridded")
    env.claim("number_of_points", len(new.points) == npoints + el + eu)
    env.claim("startInd=extend_lower", new.startInd == el)
    env.claim("endInd=len-1-extend_upper", new.endInd == len(new.points) - 1 - eu)
    env.claim("start_point_not_moved", new.points[new.startInd] is old[1])
    env.claim("end_point_not_moved", new.points[new.endInd] is old[3])
    for k in range(len(new.points)):
        if k in (new.startInd, new.endInd):
            continue
        tag, sval = new.points[k]
        env.claim_eq("point_k_is_interpolated_at_sfunc(k-extend_lower)-sfunc(0)", sval, sfunc(k - el) - sfunc(0))


OBLIGATIONS.append(Ob("getRegridded_keeps_end_points", ob_getregridded, tier="quick", family="regridding", encodes=["hypnotoad.core.equilibrium:PsiContour.getRegridded"],
                      desc="region end points are the same objects after redistribution; startInd/endInd follow the extension counts; index-to-distance map",
                      stubs=["FineContour interpolation -> tagged values", "temporaryExtend -> no-op"], bounds="4 points, extend_lower/upper in 0..2"))
