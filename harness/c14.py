"""C14 (decidable clause) - building an equilibrium does not modify the caller's input arrays: AST slice of the prologue of
TokamakEquilibrium.__init__ (sign / 2*pi options, profile extrapolation) run on object arrays of symbols."""
import ast
import types

import numpy
import z3

from symx import core, slices
from symx.core import SymReal
from symx.npproxy import patched
from symx.runner import registry, Ob
from harness.common import PROXY

import hypnotoad.cases.tokamak as tok

OBLIGATIONS, obligation = registry()

META = {
    "explanation": "The statements of TokamakEquilibrium.__init__ from `if self.user_options.reverse_current:` up to the call of magneticFunctionsFromGrid are "
                   "compiled from the current source and run on numpy object arrays of symbols for all 8 combinations of reverse_current / psi_divide_twopi / reverse_Bt "
                   "and with extrapolate_profiles on/off; afterwards the *caller's* array objects are compared element by element with their original contents.",
    "bounds": "psi2D 2x2, psi1D/fpol1D/pressure of length 3 (contents symbolic); the three flags enumerated; extrapolate_profiles False/True",
    "out": "run-to-run numerical identity, CLI regeneration from embedded inputs (the completeness of the embedded option set and the unchanged geqdsk text are decided), hidden state across constructions in one interpreter (I/O and whole-pipeline facts); "
           "only the 'does not modify the caller's input arrays' clause of C14 is decided",
    "assumptions": ["the caller passes numpy arrays (in-place operators act on the caller's buffer)"],
}

_S = {}


def _after_user_options():
    """first statement after `self.user_options = self.user_options_factory.create(settings)` (on the pinned tree: `if self.user_options.reverse_current:`);
    anything a change computes from the raw inputs before the sign/2*pi handling is then part of the slice"""
    seen = []

    def pred(n):
        if seen:
            return True
        if isinstance(n, ast.Assign) and "self.user_options" in ast.unparse(n.targets[0]) and "create(" in ast.unparse(n.value):
            seen.append(1)
        return False
    return pred


def prologue():
    if "fn" not in _S:
        _S["fn"], _S["info"] = slices.slice_function(
            tok.TokamakEquilibrium.__init__, _after_user_options(), slices.is_call_stmt("magneticFunctionsFromGrid"),
            ["self", "R1D", "Z1D", "psi2D", "psi1D", "fpol1D", "pressure", "psi_axis_gfile", "psi_bdry_gfile"], tok.__dict__, name="init_prologue")
    return _S["fn"], _S["info"]


def mkarr(env, name, shape, **kw):
    a = numpy.empty(shape, dtype=object if env.mode == "sym" else float)
    for idx in numpy.ndindex(*shape):
        a[idx] = env.real(name + "".join("_%d" % i for i in idx), **kw)
    return a


def run_prologue(env, rc, d2pi, rbt, extrap, with_pressure=True, psi_sol=None, arrays=None, decreasing=False, psi_sol_inner=None, gfile=True):
    fn, info = prologue()
    if arrays is None:
        psi2D = mkarr(env, "psi2D", (2, 2))
        psi1D = mkarr(env, "psi1D", (3,))
        fpol1D = mkarr(env, "fpol1D", (3,))
        pressure = mkarr(env, "pressure", (3,), lo=0.5, hi=9) if with_pressure else None
        if decreasing:
            env.assume((psi1D[1] < psi1D[0]) & (psi1D[2] < psi1D[1]) if env.mode == "sym" else (psi1D[1] < psi1D[0] and psi1D[2] < psi1D[1]), "psi1D decreasing")
        else:
            env.assume((psi1D[1] > psi1D[0]) & (psi1D[2] > psi1D[1]) if env.mode == "sym" else (psi1D[1] > psi1D[0] and psi1D[2] > psi1D[1]), "psi1D increasing")
    else:
        psi2D, psi1D, fpol1D, pressure = arrays  # second construction from the caller's very same array objects
    orig = {"psi2D": psi2D.copy(), "psi1D": psi1D.copy(), "fpol1D": fpol1D.copy(), "pressure": None if pressure is None else pressure.copy()}
    given = {"psi2D": psi2D, "psi1D": psi1D, "fpol1D": fpol1D, "pressure": pressure}
    me = types.SimpleNamespace(user_options=types.SimpleNamespace(reverse_current=rc, psi_divide_twopi=d2pi, reverse_Bt=rbt, extrapolate_profiles=extrap,
                                                                 psi_sol=psi_sol, psi_sol_inner=psi_sol if psi_sol_inner is None else psi_sol_inner))
    pa, pb = (env.real("psi_axis_gfile"), env.real("psi_bdry_gfile")) if gfile else (None, None)   # None: built from arrays, not from a geqdsk file
    import warnings
    with warnings.catch_warnings():
        warnings.simplefilter("ignore")
        if env.mode == "sym":
            with patched((tok, "np", PROXY)):
                fn2, _ = prologue()
                fn2.__globals__["np"] = PROXY
                try:
                    loc = fn(me, None, None, psi2D, psi1D, fpol1D, pressure, pa, pb)
                finally:
                    fn2.__globals__["np"] = numpy
        else:
            loc = fn(me, None, None, psi2D, psi1D, fpol1D, pressure, pa, pb)
    return loc, orig, given, me, (pa, pb)


def same_terms(env, a, b):
    if env.mode == "sym":
        return all(x is y or (core.is_sym(x) and core.is_sym(y) and x.e.get_id() == y.e.get_id()) for x, y in zip(a.flat, b.flat))
    return bool(numpy.all(a == b))


def _mk_two_builds(rc, d2pi, rbt, decreasing):
    """option handling + profile-spline set-up of the constructor, run twice on the caller's same arrays: the arrays keep their
    contents and the second construction sees (and builds) exactly what the first did"""
    import harness.c03 as c03

    def build(env, arrays):
        loc, orig, given, me, _ = run_prologue(env, rc, d2pi, rbt, False, arrays=arrays, decreasing=decreasing)
        fn, _info = c03.spline_slice()
        stub = types.SimpleNamespace(InterpolatedUnivariateSpline=c03.SplineStub)
        with patched((tok, "interpolate", stub)):
            fn.__globals__["interpolate"] = stub
            if env.mode == "sym":
                fn.__globals__["np"] = PROXY
            try:
                fn(me, loc["psi1D"], loc["fpol1D"], loc["pressure"])
            finally:
                fn.__globals__["np"] = numpy
        return me, orig, given

    def same_list(env, a, b):
        return len(a) == len(b) and same_terms(env, numpy.asarray(a, dtype=object if env.mode == "sym" else float), numpy.asarray(b, dtype=object if env.mode == "sym" else float))

    def body(env):
        me1, orig, given = build(env, None)
        env.witness("first_construction_ran")
        for k in ("psi2D", "psi1D", "fpol1D", "pressure"):
            env.claim("caller_array_unchanged_after_spline_setup:" + k, same_terms(env, given[k], orig[k]))
        me2, _, given2 = build(env, (given["psi2D"], given["psi1D"], given["fpol1D"], given["pressure"]))
        env.claim("second_construction:f_psi_sign_equal", me1.f_psi_sign == me2.f_psi_sign)
        env.claim("second_construction:f_spline_abscissa_equal", same_list(env, me1.f_spl.x, me2.f_spl.x))
        env.claim("second_construction:f_spline_ordinates_equal", same_list(env, me1.f_spl.y, me2.f_spl.y))
        env.claim("second_construction:p_spline_abscissa_equal", same_list(env, me1.p_spl.x, me2.p_spl.x))
        env.claim("second_construction:p_spline_ordinates_equal", same_list(env, me1.p_spl.y, me2.p_spl.y))
        for k in ("psi2D", "psi1D", "fpol1D", "pressure"):
            env.claim("caller_array_unchanged_after_second_construction:" + k, same_terms(env, given2[k], orig[k]))
    return body


def _mk_settings(rc, d2pi, rbt):
    """the constructor from its very first statement (options created from the caller's settings dict by the real options factory) to the call of
    magneticFunctionsFromGrid: the caller's settings dictionaries hold exactly what they held before"""
    def body(env):
        fn, info = slices.slice_function(
            tok.TokamakEquilibrium.__init__, slices.is_assign_to("self.user_options"), slices.is_call_stmt("magneticFunctionsFromGrid"),
            ["self", "R1D", "Z1D", "psi2D", "psi1D", "fpol1D", "pressure", "psi_axis_gfile", "psi_bdry_gfile", "settings", "nonorthogonal_settings", "wall"],
            tok.__dict__, name="init_from_first_statement")
        settings = {"reverse_current": rc, "psi_divide_twopi": d2pi, "reverse_Bt": rbt, "nx_core": 7}
        nonorth = {"nonorthogonal_xpoint_poloidal_spacing_length": 0.125}
        s0, n0 = dict(settings), dict(nonorth)
        psi2D, psi1D, fpol1D = mkarr(env, "psi2D", (2, 2)), mkarr(env, "psi1D", (3,)), mkarr(env, "fpol1D", (3,))
        pressure = mkarr(env, "pressure", (3,), lo=0.5, hi=9)
        env.assume((psi1D[1] > psi1D[0]) & (psi1D[2] > psi1D[1]) if env.mode == "sym" else (psi1D[1] > psi1D[0] and psi1D[2] > psi1D[1]), "psi1D increasing")
        R1D, Z1D = numpy.array([1.0, 2.0]), numpy.array([-1.0, 1.0])
        r0, z0 = R1D.copy(), Z1D.copy()
        me = tok.TokamakEquilibrium.__new__(tok.TokamakEquilibrium)
        import warnings
        with warnings.catch_warnings():
            warnings.simplefilter("ignore")
            if env.mode == "sym":
                fn.__globals__["np"] = PROXY
            try:
                fn(me, R1D, Z1D, psi2D, psi1D, fpol1D, pressure, env.real("psi_axis_gfile"), env.real("psi_bdry_gfile"), settings, nonorth, None)
            finally:
                fn.__globals__["np"] = numpy
        env.witness("ran")
        env.claim("options_created_from_the_settings", me.user_options.reverse_current == rc and me.user_options.psi_divide_twopi == d2pi and me.user_options.reverse_Bt == rbt
                  and me.user_options.nx_core == 7)
        env.claim("caller's_settings_dict_unchanged", settings == s0 and list(settings) == list(s0))
        env.claim("caller's_nonorthogonal_settings_dict_unchanged", nonorth == n0 and list(nonorth) == list(n0))
        env.claim("caller's_R1D_Z1D_unchanged", bool((R1D == r0).all() and (Z1D == z0).all()))
    return body


def ob_provenance(env):
    """writeGridfile: the embedded YAML is loadable and holds EVERY evaluated option of the equilibrium (general and non-orthogonal) and of the mesh with its
    value; the geqdsk text written is the very string the equilibrium kept (structural: no arithmetic to decide)"""
    import ast
    import inspect
    import textwrap
    import yaml
    import hypnotoad.core.mesh as meshm
    src = textwrap.dedent(inspect.getsource(meshm.BoutMesh.writeGridfile))
    f0 = ast.parse(src).body[0]
    body = [n for n in f0.body if isinstance(n, ast.With)][0].body
    i0 = next(i for i, n in enumerate(body) if isinstance(n, ast.Assign) and ast.unparse(n.targets[0]) == "options_dict")
    i1 = next(i for i, n in enumerate(body) if isinstance(n, ast.If) and "hypnotoad_input_geqdsk_file_contents" in ast.unparse(n))
    f2 = ast.FunctionDef(name="provenance", args=ast.arguments(posonlyargs=[], args=[ast.arg("self"), ast.arg("f")], kwonlyargs=[], kw_defaults=[], defaults=[]),
                         body=body[i0:i1 + 1], decorator_list=[], returns=None, type_comment=None, type_params=[])
    m = ast.Module(body=[f2], type_ignores=[])
    ast.fix_missing_locations(m)
    ns = dict(meshm.__dict__)
    exec(compile(m, "<writeGridfile provenance>", "exec"), ns)
    # which of the option sets contributes a key is chosen by the explorer: every key must survive wherever it comes from
    eq_opts = {"nx_core": 7, "psinorm_sol": 1.25, "reverse_current": True, "refine_methods": ["integrate+newton", "integrate"]}
    no_opts = {"nonorthogonal_xpoint_poloidal_spacing_length": 0.375, "nonorthogonal_spacing_method": "combined"}
    mesh_opts = {"y_boundary_guards": 3, "curvature_type": "curl(b/B)", "refine_methods": ["integrate+newton", "integrate"]}
    text = "  EFIT  synthetic geqdsk text\n 1.000000000E+00-2.500000000E-01\n"
    written, attrs = {}, {}
    fobj = types.SimpleNamespace(write=lambda k, v: written.__setitem__(k, v), write_file_attribute=lambda k, v: attrs.__setitem__(k, v))
    # the equilibrium may have been read from a named file, from an unnamed text stream (text but no file name), or built from arrays (neither)
    origin = env.choose(3)
    env.tag(("named_file", "unnamed_stream", "from_arrays")[origin])
    eq = types.SimpleNamespace(user_options=eq_opts, nonorthogonal_options=no_opts)
    if origin == 0:
        eq.geqdsk_filename = "file.g"
    if origin in (0, 1):
        eq.geqdsk_input = text
    me = types.SimpleNamespace(user_options=mesh_opts, version="v", git_hash=None, git_diff=None, equilibrium=eq)
    ns["provenance"](me, fobj)
    env.witness("written")
    y = written.get("hypnotoad_inputs_yaml")
    env.claim("yaml_written_as_text", isinstance(y, str))
    loaded = yaml.safe_load(y) if isinstance(y, str) else {}
    for name, opts in (("equilibrium", eq_opts), ("nonorthogonal", no_opts), ("mesh", mesh_opts)):
        for k, v in opts.items():
            env.claim("embedded_yaml_has_every_%s_option_with_its_value" % name, k in loaded and loaded[k] == v)
    env.claim("embedded_yaml_has_nothing_else", set(loaded) == set(eq_opts) | set(no_opts) | set(mesh_opts))
    if origin in (0, 1):
        env.claim("embedded_geqdsk_text_is_the_stored_string_unchanged", written.get("hypnotoad_input_geqdsk_file_contents") is text)
    else:
        env.claim("no_geqdsk_text_invented", "hypnotoad_input_geqdsk_file_contents" not in written)
    env.claim("geqdsk_filename_recorded_iff_known", attrs.get("hypnotoad_geqdsk_filename") == ("file.g" if origin == 0 else None))


def _mk(rc, d2pi, rbt, extrap):
    def body(env):
        try:
            loc, orig, given, me, _ = run_prologue(env, rc, d2pi, rbt, extrap, psi_sol=None if not extrap else 99.0)
        except UnboundLocalError as e:
            if "psiSOL" not in str(e):
                raise
            # profile already reaches psi_sol: the constructor stops with this error (DESIGN 7.5b); nothing was built, nothing to compare
            env.tag("no_extension_needed:constructor_stops_with_UnboundLocalError")
            return
        env.witness("prologue_ran")
        for k in ("psi2D", "psi1D", "fpol1D", "pressure"):
            env.claim("caller_array_unchanged:" + k, same_terms(env, given[k], orig[k]))
    return body


for _rc in (False, True):
    for _d in (False, True):
        for _rb in (False, True):
            for _ex in (False, True):
                OBLIGATIONS.append(Ob("inputs_unmodified_rc%d_2pi%d_rbt%d_extrap%d" % (_rc, _d, _rb, _ex), _mk(_rc, _d, _rb, _ex),
                                      tier="quick" if not _ex else "thorough", family="prologue",
                                      encodes=["hypnotoad.cases.tokamak:TokamakEquilibrium.__init__"],
                                      desc="after the option handling of the constructor the caller's psi2D, psi1D, fpol1D, pressure arrays hold their original contents",
                                      bounds="reverse_current=%s psi_divide_twopi=%s reverse_Bt=%s extrapolate_profiles=%s" % (_rc, _d, _rb, _ex)))

for _rc in (False, True):
    for _d in (False, True):
        for _rb in (False, True):
            for _dec in (False, True):
                OBLIGATIONS.append(Ob("two_constructions_rc%d_2pi%d_rbt%d_psi1D_%s" % (_rc, _d, _rb, "decreasing" if _dec else "increasing"), _mk_two_builds(_rc, _d, _rb, _dec),
                                      tier="quick", family="prologue+splines",
                                      encodes=["hypnotoad.cases.tokamak:TokamakEquilibrium.__init__"],
                                      desc="option handling and profile-spline set-up run twice on the caller's same arrays: arrays unchanged, second construction builds the same splines",
                                      stubs=["InterpolatedUnivariateSpline -> record of abscissa/ordinates"],
                                      bounds="reverse_current=%s psi_divide_twopi=%s reverse_Bt=%s, psi1D %s" % (_rc, _d, _rb, "decreasing" if _dec else "increasing")))

for _rc, _d, _rb in ((False, False, False), (True, True, True), (True, False, False), (False, True, True)):
    OBLIGATIONS.append(Ob("settings_unmodified_rc%d_2pi%d_rbt%d" % (_rc, _d, _rb), _mk_settings(_rc, _d, _rb), tier="quick", family="prologue",
                          encodes=["hypnotoad.cases.tokamak:TokamakEquilibrium.__init__"],
                          desc="from the first statement of the constructor: the caller's settings / nonorthogonal_settings dictionaries and R1D, Z1D are left as they were",
                          stubs=["(real optionsfactory)"], bounds="reverse_current=%s psi_divide_twopi=%s reverse_Bt=%s" % (_rc, _d, _rb)))
OBLIGATIONS.append(Ob("embedded_inputs_complete", ob_provenance, tier="quick", family="provenance", encodes=["hypnotoad.core.mesh:BoutMesh.writeGridfile"],
                      desc="hypnotoad_inputs_yaml is loadable and contains every evaluated equilibrium, non-orthogonal and mesh option; the geqdsk text is embedded unchanged",
                      stubs=["DataFile -> recorder", "(real yaml.dump / safe_load on concrete option values)"], bounds="3 small option sets; structural"))
import harness.c11 as _c11  # noqa: E402
for _n in (3, 4):
    OBLIGATIONS.append(Ob("wall_list_unmodified_%d_vertices" % _n, _c11._mk_orientation(_n), tier="quick", family="prologue",
                          encodes=["hypnotoad.cases.tokamak:TokamakEquilibrium.__init__"],
                          desc="the constructor stores the wall anticlockwise without reversing or otherwise modifying the caller's list (shared with C11)",
                          bounds="%d symbolic vertices, either orientation" % _n))
