"""Stub equilibria for C03/C07/C18: the REAL spline-branch closures of Equilibrium.magneticFunctionsFromGrid and the REAL
base-class helper chain (Bzeta, B2, dB*d*) sitting on an interpolant stub that returns psi and its partial derivatives
from a table of symbols (plain mode) or as jets carrying the next-order derivatives (jet mode)."""
import types

import numpy

from symx import core
from symx.jets import Jet2
from symx.npproxy import patched
from harness.common import PROXY

import hypnotoad.core.equilibrium as eqm


class PsiTable:
    """psi and its partials at the evaluation point: p, pR, pZ, pRR, pRZ, pZZ (+ third order when asked)"""

    def __init__(self, env, third=False):
        self.p, self.pR, self.pZ = env.real("psi"), env.real("psi_R"), env.real("psi_Z")
        self.pRR, self.pRZ, self.pZZ = env.real("psi_RR"), env.real("psi_RZ"), env.real("psi_ZZ")
        self.third = third
        if third:
            self.pRRR, self.pRRZ, self.pRZZ, self.pZZZ = env.real("psi_RRR"), env.real("psi_RRZ"), env.real("psi_RZZ"), env.real("psi_ZZZ")


def make_equilibrium(env, tab, jets, fpol_sym=True, box=None):
    """Equilibrium object whose psi/f_R/f_Z/Bp_R/Bp_Z/d2psi* are the real spline-branch closures over a table interpolant.
    box = (Rlo, Rhi, Zlo, Zhi): grid extent (symbols allowed); numpy.clip then has its real semantics and the arguments handed
    to the interpolant are recorded in eq._psi_args"""
    eq = eqm.Equilibrium.__new__(eqm.Equilibrium)
    calls = []
    args_seen = []

    class PsiFunc:
        def __call__(self, R_, Z_, dx=0, dy=0, grid=False):
            calls.append((dx, dy))
            args_seen.append((R_, Z_, dx, dy))
            key = (dx, dy)
            if jets:
                t3 = (lambda n: getattr(tab, n)) if tab.third else (lambda n: 0)
                table = {(0, 0): Jet2(tab.p, tab.pR, tab.pZ, tab.pRR, tab.pRZ, tab.pZZ),
                         (1, 0): Jet2(tab.pR, tab.pRR, tab.pRZ, t3("pRRR"), t3("pRRZ"), t3("pRZZ")),
                         (0, 1): Jet2(tab.pZ, tab.pRZ, tab.pZZ, t3("pRRZ"), t3("pRZZ"), t3("pZZZ"))}
                if tab.third:
                    table.update({(2, 0): Jet2(tab.pRR, tab.pRRR, tab.pRRZ), (0, 2): Jet2(tab.pZZ, tab.pRZZ, tab.pZZZ),
                                  (1, 1): Jet2(tab.pRZ, tab.pRRZ, tab.pRZZ)})
            else:
                table = {(0, 0): tab.p, (1, 0): tab.pR, (0, 1): tab.pZ, (2, 0): tab.pRR, (0, 2): tab.pZZ, (1, 1): tab.pRZ}
            return table[key]

    if box is None:
        def clip(x, lo, hi):
            return x  # evaluation point is assumed strictly inside the box (stated bound)
        Rgrid, Zgrid = [0.0, 1.0e3], [-1.0e3, 1.0e3]
    else:
        def clip(x, lo, hi):
            # numpy.clip on a scalar
            if x < lo:
                return lo
            if x > hi:
                return hi
            return x
        Rgrid, Zgrid = [box[0], box[1]], [box[2], box[3]]

    px = _ProxyWithClip(PROXY, clip)
    with patched((eqm, "interpolate", types.SimpleNamespace(RectBivariateSpline=lambda R_, Z_, psi: PsiFunc())), (eqm, "numpy", px)):
        eq.magneticFunctionsFromGrid(Rgrid, Zgrid, None, "spline")
    eq._numpy_for_closures = px
    eq._psi_calls = calls
    eq._psi_args = args_seen
    return eq


class _ProxyWithClip:
    def __init__(self, base, clip):
        self._b = base
        self.clip = clip

    def __getattr__(self, k):
        return getattr(self._b, k)


def with_fpol(env, eq, jets, tab):
    f, fp = env.real("fpol"), env.real("fpolprime")
    if jets:
        def fpol(psi):
            psi = Jet2.lift(psi)
            return Jet2(f, fp * psi.dR, fp * psi.dZ)
        eq.fpol = fpol
    else:
        eq.fpol = lambda psi: f
    eq.fpolprime = lambda psi: fp
    return f, fp


import contextlib  # noqa: E402


@contextlib.contextmanager
def field_numpy(env, eq):
    """closures look `numpy` up at call time: keep the object-dtype proxy (with pass-through clip) bound while they run"""
    if env.mode != "sym":
        yield
        return
    with patched((eqm, "numpy", eq._numpy_for_closures)):
        yield
