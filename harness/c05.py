"""C05 - hy and poloidal_distance are arc lengths along flux surfaces: real MeshRegion.calcHy and calcPoloidalDistance on chains of stub
regions whose contours return symbolic strictly increasing distance arrays; real FineContour.calcDistance and getDistance on small
symbolic polylines."""
import types

import numpy
import z3

from symx import core
from symx.core import SymReal
from symx.npproxy import patched
from symx.runner import registry, Ob
from harness.common import sym_numpy, mk_mla, stub_region, MultiLocationArray, mesh_mod, mla_mod

import hypnotoad.core.equilibrium as eqm
from hypnotoad.core.equilibrium import Point2D

OBLIGATIONS, obligation = registry()

META = {
    "explanation": "Real calcHy / calcPoloidalDistance on 2-region open and periodic chains (nx=1, ny=2) with symbolic contour distances d[k]; real FineContour.calcDistance "
                   "(cumulative chord sum) and getDistance (interpolation weights) on 3-4 point polylines.",
    "bounds": "chains of 2 regions, nx=1, ny=2 (5 points per contour); distances strictly increasing reals; FineContour with 3-4 points on a straight line for getDistance",
    "out": "that the FineContour distances are the true arc length (chord-sum discretisation, equaliseSpacing convergence, quadratic convergence in finecontour_Nfine)",
    "assumptions": ["PsiContour.get_distance returns the stub's strictly increasing symbolic array (its own guard contract is decided under C10); the offset of "
                    "that array (distance of the contour's first point from the first point of its fine contour) is arbitrary for every region of a chain"],
}


class Contour:
    def __init__(self, env, name, npts, start=0):
        self.d = [env.real("%s_d%d" % (name, k)) for k in range(npts)]
        env.assume(core.sand(*[self.d[k + 1] > self.d[k] for k in range(npts - 1)]) if env.mode == "sym" else all(self.d[k + 1] > self.d[k] for k in range(npts - 1)),
                   "distances strictly increasing")
        self.startInd = start

    def get_distance(self, psi=None):
        return self.d


def _chain(env, periodic, ny=2):
    nx = 1
    regs = {}
    for rid in (0, 1):
        r = stub_region(nx, ny, True)
        r.name = "reg%d" % rid
        r.myID = rid
        r.contours = [Contour(env, "r%dc%d" % (rid, i), 2 * ny + 1) for i in range(2 * nx + 1)]
        r.equilibriumRegion = types.SimpleNamespace(psi=None, name=r.name)
        regs[rid] = r
    regs[0].yGroupIndex, regs[1].yGroupIndex = 0, 1
    regs[0].connections = {"inner": None, "outer": None, "lower": 1 if periodic else None, "upper": 1}
    regs[1].connections = {"inner": None, "outer": None, "lower": 0, "upper": 0 if periodic else None}
    # (a contour's distances are measured from the first point of its FineContour, which lies BEFORE the contour's first point whenever the fine
    # contour was extended at its lower end - also for a region that continues a chain: d[0] is an arbitrary offset, not assumed to be 0)
    dyv = env.real("dy", pos=True)
    mp = types.SimpleNamespace(regions=regs, equilibrium=types.SimpleNamespace(psi=None), dy_scalar=dyv)
    for r in regs.values():
        r.meshParent = mp
        dy = MultiLocationArray(nx, ny)
        for loc in ("centre", "ylow", "xlow", "corners"):
            getattr(dy, loc)[...] = dyv
        r.dy = dy
    return regs, dyv


def _mk_hy(periodic):
    def body(env):
        with sym_numpy(env, mla_mod, mesh_mod):
            regs, dy = _chain(env, periodic)
            hy0 = regs[0].calcHy()
            hy1 = regs[1].calcHy()
        env.witness("calcHy_returned")
        d = regs[0].contours[1].d  # centre/ylow line of the single radial cell
        dn = regs[1].contours[1].d
        for j in range(2):
            env.claim_eq("hy.centre*dy=arc_between_the_cell's_y_faces", hy0.centre[0, j] * dy, d[2 * j + 2] - d[2 * j])
        env.claim_eq("hy.ylow*dy=arc_between_adjacent_centres(interior)", hy0.ylow[0, 1] * dy, d[3] - d[1])
        env.claim_eq("hy.ylow*dy_across_join", hy0.ylow[0, 2] * dy, (d[4] - d[3]) + (dn[1] - dn[0]))
        env.claim_eq("hy.ylow*dy_across_join(seen_from_upper_region)", hy1.ylow[0, 0] * dy, (dn[1] - dn[0]) + (d[4] - d[3]))
        if periodic:
            env.claim_eq("hy.ylow*dy_across_periodic_join", hy0.ylow[0, 0] * dy, (d[1] - d[0]) + (dn[4] - dn[3]))
        else:
            env.claim_eq("hy.ylow*dy_at_lower_boundary=2*half_cell", hy0.ylow[0, 0] * dy, 2 * (d[1] - d[0]))
            env.claim_eq("hy.ylow*dy_at_upper_boundary=2*half_cell", hy1.ylow[0, 2] * dy, 2 * (dn[4] - dn[3]))
        # xlow / corners from the even contours
        e = regs[0].contours[2].d
        env.claim_eq("hy.xlow*dy", hy0.xlow[1, 0] * dy, e[2] - e[0])
        env.claim_eq("hy.corners*dy(interior)", hy0.corners[1, 1] * dy, e[3] - e[1])
        # the same at the x-face positions, both x-faces of the cell (even contours 0 and 2), across joins and at boundaries
        for ix in (0, 1):
            e, en = regs[0].contours[2 * ix].d, regs[1].contours[2 * ix].d
            env.claim_eq("hy.corners*dy_across_join", hy0.corners[ix, 2] * dy, (e[4] - e[3]) + (en[1] - en[0]))
            env.claim_eq("hy.corners*dy_across_join(seen_from_upper_region)", hy1.corners[ix, 0] * dy, (en[1] - en[0]) + (e[4] - e[3]))
            if periodic:
                env.claim_eq("hy.corners*dy_across_periodic_join", hy0.corners[ix, 0] * dy, (e[1] - e[0]) + (en[4] - en[3]))
                env.claim_eq("hy.corners*dy_across_periodic_join(seen_from_lower_region)", hy1.corners[ix, 2] * dy, (en[4] - en[3]) + (e[1] - e[0]))
            else:
                env.claim_eq("hy.corners*dy_at_lower_boundary=2*half_cell", hy0.corners[ix, 0] * dy, 2 * (e[1] - e[0]))
                env.claim_eq("hy.corners*dy_at_upper_boundary=2*half_cell", hy1.corners[ix, 2] * dy, 2 * (en[4] - en[3]))
        for hy in (hy0, hy1):
            for loc in ("centre", "ylow", "xlow", "corners"):
                for v in getattr(hy, loc).flat:
                    env.claim("hy>0@" + loc, v > 0)
    return body


def ob_hy_refuses_nonpositive(env):
    """a non-increasing distance array makes calcHy raise rather than return hy <= 0"""
    with sym_numpy(env, mla_mod, mesh_mod):
        r = stub_region(1, 1, True)
        r.name = "reg"
        vals = [[env.real("c%d_d%d" % (i, k), lo=-5, hi=5) for k in range(3)] for i in range(3)]
        r.contours = [types.SimpleNamespace(get_distance=(lambda v: (lambda psi=None: v))(vals[i]), startInd=0) for i in range(3)]
        r.equilibriumRegion = types.SimpleNamespace(psi=None, name="reg")
        dyv = env.real("dy", pos=True)
        dy = MultiLocationArray(1, 1)
        for loc in ("centre", "ylow", "xlow", "corners"):
            getattr(dy, loc)[...] = dyv
        r.dy = dy
        r.meshParent = types.SimpleNamespace(regions={0: r}, equilibrium=types.SimpleNamespace(psi=None))
        try:
            hy = r.calcHy()
        except ValueError:
            env.tag("refused")
            return
    env.tag("returned")
    env.witness("returned")
    for loc in ("centre", "ylow", "xlow", "corners"):
        for v in getattr(hy, loc).flat:
            env.claim("returns_implies_hy>0@" + loc, v > 0)


def _mk_poldist(periodic):
    def body(env):
        with sym_numpy(env, mla_mod, mesh_mod):
            regs, dy = _chain(env, periodic)
            for r in regs.values():
                for c in r.contours:
                    c.startInd = 0
            regs[0].calcPoloidalDistance()
            later = regs[1].calcPoloidalDistance()
        env.witness("returned")
        env.claim("only_first_region_of_chain_runs", later is None)
        p0, p1 = regs[0].poloidal_distance, regs[1].poloidal_distance
        d, dn = regs[0].contours[1].d, regs[1].contours[1].d
        e, en = regs[0].contours[2].d, regs[1].contours[2].d
        env.claim_eq("zero_at_first_face_of_chain", p0.ylow[0, 0], 0)
        env.claim_eq("zero_at_first_corner_of_chain", p0.corners[1, 0], 0)
        env.claim_eq("centre=distance_from_start", p0.centre[0, 1], d[3] - d[0])
        env.claim_eq("continuous_across_join@ylow", p1.ylow[0, 0], p0.ylow[0, -1])
        env.claim_eq("continuous_across_join@corners", p1.corners[1, 0], p0.corners[1, -1])
        env.claim_eq("second_region_adds_its_own_arc", p1.centre[0, 0] - p1.ylow[0, 0], dn[1] - dn[0])
        env.claim_eq("xlow_of_second_region", p1.xlow[1, 1] - p1.corners[1, 0], en[3] - en[0])
        seq = [p0.ylow[0, 0], p0.centre[0, 0], p0.ylow[0, 1], p0.centre[0, 1], p0.ylow[0, 2], p1.centre[0, 0], p1.ylow[0, 1], p1.centre[0, 1], p1.ylow[0, 2]]
        for a, b in zip(seq[:-1], seq[1:]):
            env.claim("strictly_increasing_in_y", b > a)
        tot = regs[0].total_poloidal_distance
        if periodic:
            env.claim_eq("total=circumference(centre)", tot.centre[0, 0], (d[4] - d[0]) + (dn[4] - dn[0]))
            env.claim_eq("total=circumference(xlow)", tot.xlow[1, 0], (e[4] - e[0]) + (en[4] - en[0]))
        else:
            env.claim("total_untouched_on_open_chain", tot._centre_array is None and tot._xlow_array is None)
    return body


def ob_calcdistance(env):
    """FineContour.calcDistance: cumulative sum of chord lengths"""
    fc = eqm.FineContour.__new__(eqm.FineContour)
    n = 4
    pos = numpy.empty((n, 2), dtype=object if env.mode == "sym" else float)
    steps = []
    x, y = env.real("x0", lo=-5, hi=5), env.real("y0", lo=-5, hi=5)
    pos[0] = (x, y)
    for k in range(1, n):
        # step k = length L_k in the rational direction (c,s)
        L = env.real("L%d" % k, pos=True)
        t = env.real("t%d" % k, lo=-2, hi=2)
        c, s = (1 - t * t) / (1 + t * t), 2 * t / (1 + t * t)
        x, y = x + L * c, y + L * s
        pos[k] = (x, y)
        steps.append(L)
    fc.positions = pos
    fc.distance = None
    if env.mode == "sym":
        env.sqrt_hints = [core.lift_real(L) for L in steps]
    with sym_numpy(env, eqm):
        fc.calcDistance()
    env.witness("returned")
    env.claim_eq("distance[0]=0", fc.distance[0], 0)
    acc = 0
    for k in range(1, n):
        acc = acc + steps[k - 1]
        env.claim_eq("distance[k]=sum_of_chords", fc.distance[k], acc)


def ob_getdistance(env):
    """FineContour.getDistance for a point on the polyline between two nodes: linear interpolation of the nodes' distances"""
    env.logic = "QF_NRA"
    fc = eqm.FineContour.__new__(eqm.FineContour)
    n = 3
    xs = [env.real("x%d" % k, lo=-5, hi=5) for k in range(n)]
    ds = [env.real("dist%d" % k, lo=0, hi=20) for k in range(n)]
    up = core.sand(*[xs[k + 1] > xs[k] for k in range(n - 1)]) if env.mode == "sym" else all(xs[k + 1] > xs[k] for k in range(n - 1))
    env.assume(up, "nodes ordered along the line")
    pos = numpy.empty((n, 2), dtype=object if env.mode == "sym" else float)
    for k in range(n):
        pos[k] = (xs[k], 0.0 * xs[k])
    fc.positions, fc.distance = pos, numpy.array(ds, dtype=object if env.mode == "sym" else float)
    x = env.real("x", lo=-5, hi=5)
    env.assume((x >= xs[0]) & (x <= xs[-1]) if env.mode == "sym" else (xs[0] <= x <= xs[-1]), "point on the polyline")
    if env.mode == "sym":
        env.sqrt_hints = [core.lift_real(x - xk) for xk in xs] + [core.lift_real(xs[1] - xs[0]), core.lift_real(xs[2] - xs[1])]
    with sym_numpy(env, eqm):
        got = fc.getDistance(Point2D(x, 0.0 * x))
    env.witness("returned")
    # exact linear interpolation on the segment containing x
    if env.mode == "sym":
        seg0 = x <= xs[1]
        want = core.ite(seg0, ds[0] + (x - xs[0]) / (xs[1] - xs[0]) * (ds[1] - ds[0]), ds[1] + (x - xs[1]) / (xs[2] - xs[1]) * (ds[2] - ds[1]))
    else:
        want = ds[0] + (x - xs[0]) / (xs[1] - xs[0]) * (ds[1] - ds[0]) if x <= xs[1] else ds[1] + (x - xs[1]) / (xs[2] - xs[1]) * (ds[2] - ds[1])
    env.claim_eq("distance_is_linear_interpolation_between_the_two_bracketing_nodes", got, want)


def ob_reverse_and_totals(env):
    """reversing a contour (regions gridded against their point order, e.g. upper legs) keeps arc lengths: FineContour.reverse maps distance d to
    D_last - d on the reversed points and swaps the designated start/end points; totalDistance is the arc between the designated points;
    PsiContour.reverse swaps the designated points likewise and drops its cached distances"""
    sym = env.mode == "sym"
    n = 5
    start = int(env.int("startInd", lo=0, hi=n - 2))
    end = int(env.int("endInd", lo=start + 1, hi=n - 1))
    ds = [env.real("dist%d" % k, lo=0, hi=20) for k in range(n)]
    fc = eqm.FineContour.__new__(eqm.FineContour)
    fc.distance = numpy.array(ds, dtype=object if sym else float)
    fc.positions = numpy.array([[float(k), 10.0 + k] for k in range(n)])
    fc.startInd, fc.endInd = start, end
    total0 = fc.totalDistance()
    env.claim_eq("fine_total_distance=arc_between_designated_points", total0, ds[end] - ds[start])
    with sym_numpy(env, eqm):
        fc.reverse()
    env.witness("reversed")
    env.claim("fine_positions_reversed", [float(x) for x in fc.positions[:, 0]] == [float(n - 1 - k) for k in range(n)])
    env.claim("fine_start_designates_the_old_end_point", float(fc.positions[fc.startInd, 0]) == float(end) and float(fc.positions[fc.endInd, 0]) == float(start))
    for k in range(n):
        env.claim_eq("fine_distance_measured_from_the_new_first_point", fc.distance[k], ds[n - 1] - ds[n - 1 - k])
    env.claim_eq("fine_total_distance_unchanged_by_reversal", fc.totalDistance(), total0)
    # PsiContour.reverse
    pts = ["p%d" % k for k in range(n)]
    c = eqm.PsiContour.__new__(eqm.PsiContour)
    c.points = list(pts)
    c._startInd, c._endInd = start, end
    c._distance, c._extend_lower, c._extend_upper = "cached", 0, 0
    marker = types.SimpleNamespace(n=0)
    marker.reverse = lambda: setattr(marker, "n", marker.n + 1)
    c._fine_contour = marker
    c._reset_cached = lambda: None      # (the index setters would drop the fine contour; its own reversal is checked through the marker)
    c.reverse()
    env.claim("contour_points_reversed", c.points == pts[::-1])
    env.claim("contour_start_designates_the_old_end_point", c.points[c.startInd] == pts[end] and c.points[c.endInd] == pts[start])
    env.claim("contour_cached_distance_dropped", c._distance is None)
    # distances along a contour: PsiContour.totalDistance is the arc between its designated points
    c2 = eqm.PsiContour.__new__(eqm.PsiContour)
    c2.points, c2._startInd, c2._endInd = list(pts), start, end
    c2._distance = list(ds)
    env.claim_eq("contour_total_distance=arc_between_designated_points", c2.totalDistance(psi=None), ds[end] - ds[start])


ENC = ["hypnotoad.core.mesh:MeshRegion.calcHy"]
OBLIGATIONS.append(Ob("reverse_and_total_distance", ob_reverse_and_totals, tier="quick", family="FineContour",
                      encodes=["hypnotoad.core.equilibrium:FineContour.reverse", "hypnotoad.core.equilibrium:FineContour.totalDistance",
                               "hypnotoad.core.equilibrium:PsiContour.reverse", "hypnotoad.core.equilibrium:PsiContour.totalDistance"],
                      desc="reversal keeps arc lengths and swaps the designated end points; total distance is the arc between the designated points",
                      bounds="5 points, every startInd < endInd, distances symbolic"))
for _p in (False, True):
    OBLIGATIONS.append(Ob("calcHy_%s_chain" % ("periodic" if _p else "open"), _mk_hy(_p), tier="quick", family="calcHy", encodes=ENC,
                          desc="hy*dy = arc between y-faces (centre) / adjacent centres (ylow), across joins, 2*half-cell at boundaries; hy>0",
                          stubs=["contour distances symbolic, strictly increasing"], bounds="2 regions, nx=1, ny=2"))
    OBLIGATIONS.append(Ob("poloidal_distance_%s_chain" % ("periodic" if _p else "open"), _mk_poldist(_p), tier="quick", family="calcPoloidalDistance",
                          encodes=["hypnotoad.core.mesh:MeshRegion.calcPoloidalDistance"],
                          desc="zero at chain start, strictly increasing in y, continuous across joins, total = circumference on closed chains only",
                          stubs=["contour distances symbolic"], bounds="2 regions, nx=1, ny=2"))
OBLIGATIONS.append(Ob("calcHy_refuses_nonpositive", ob_hy_refuses_nonpositive, tier="quick", family="calcHy", encodes=ENC,
                      desc="arbitrary (not necessarily increasing) distances: calcHy either raises or returns hy>0 everywhere", bounds="1 region, nx=1, ny=1"))
OBLIGATIONS.append(Ob("finecontour_calcDistance", ob_calcdistance, tier="quick", family="FineContour", encodes=["hypnotoad.core.equilibrium:FineContour.calcDistance"],
                      desc="distance = cumulative sum of chord lengths", bounds="4 points, steps of symbolic length and direction"))
OBLIGATIONS.append(Ob("finecontour_getDistance", ob_getdistance, tier="quick", family="FineContour",
                      encodes=["hypnotoad.core.equilibrium:FineContour.getDistance", "hypnotoad.core.equilibrium:closest_approach"],
                      desc="for a point on the polyline the returned distance is the linear interpolation between the bracketing nodes",
                      bounds="3 collinear nodes, point anywhere between the end nodes", max_paths=3000, wall_s=600))



def _xarrays_from_regions(env):
    # resolved at call time: harness.c06 imports harness.c02, which imports this module's siblings (no import cycle at load time)
    import harness.c06 as m
    return m.ob_xarrays_from_regions(env)


OBLIGATIONS.append(Ob("total_poloidal_distance_collected_from_y_groups", _xarrays_from_regions, tier="quick", family="collection", encodes=["hypnotoad.core.mesh:BoutMesh.geometry"],
                      desc="x-direction arrays (total_poloidal_distance, ShiftAngle): centre and xlow of the global array take the first region of each y-group over its radial range (shared with C06)",
                      bounds="4 regions in 3 y-groups, values symbolic"))


def _ygroups(kind):
    def body(env):
        import harness.c08 as m   # resolved at call time
        return m._mk_ygroups(kind)(env)
    return body


for _k in ("lsn", "cdn", "ldn", "udn", "circular_core"):
    OBLIGATIONS.append(Ob("origin_of_the_closed_surface_integrals_" + _k, _ygroups(_k), tier="quick", family="calcPoloidalDistance",
                          encodes=["hypnotoad.core.mesh:Mesh.makeRegions"],
                          desc="the chain of y-connected core regions starts at its first region in y-index order (where the integrated quantity is zero): shared with C08",
                          bounds="real constructor on symbolic sizes", max_paths=400))
