"""C03 - field and profile values at grid points agree with the equilibrium: real geometry1 (shared with C02), real interpolant closures
(shared with C18), AST slices of TokamakEquilibrium.__init__ (sign/2*pi options, profile extrapolation, spline set-up, scalars),
private-flux pressure reflection in createRegionObjects."""
import types

import numpy
import z3

from symx import core, slices
from symx.core import SymReal
from symx.npproxy import patched
from symx.runner import registry, Ob
from harness.common import PROXY
import harness.c02 as c02
import harness.c14 as c14
import harness.c18 as c18
import harness.c08 as c08

import hypnotoad.cases.tokamak as tok
from hypnotoad.core.equilibrium import Point2D

OBLIGATIONS, obligation = registry()

META = {
    "explanation": "Real geometry1 on a stub region with an uninterpreted equilibrium; real spline-branch closures over a table interpolant; the constructor's "
                   "option handling / extrapolation / spline set-up / scalar assignments as AST slices of the current source on symbolic arrays; the pressure "
                   "reflection lambda created by the real createRegionObjects.",
    "bounds": "psi2D 2x2, profiles of length 3; flags enumerated (8 combinations); extrapolation with psi_sol beyond the last profile knot; region sizes symbolic",
    "out": "spline accuracy; that the O/X-points are right (C19); values of the 49 extrapolation knots beyond their closed form",
    "assumptions": ["InterpolatedUnivariateSpline(x, y) interpolates the knots it is given (stub records them)", "exp uninterpreted", "reals not doubles"],
}

TWOPI = 2 * numpy.pi


def _mk_signs(rc, d2pi, rbt, gfile=True):
    def body(env):
        loc, orig, given, me, (pa, pb) = c14.run_prologue(env, rc, d2pi, rbt, False, gfile=gfile)
        env.witness("prologue_ran")
        s_psi = (-1.0 if rc else 1.0)
        div = TWOPI if d2pi else 1.0
        for idx in numpy.ndindex(2, 2):
            env.claim_eq("psi2D=(+-)input/(2pi)^k", loc["psi2D"][idx], s_psi * orig["psi2D"][idx] / div)
        for k in range(3):
            env.claim_eq("psi1D=(+-)input/(2pi)^k", loc["psi1D"][k], s_psi * orig["psi1D"][k] / div)
            env.claim_eq("fpol1D=(+-)input", loc["fpol1D"][k], (-1.0 if rbt else 1.0) * orig["fpol1D"][k])
            env.claim_eq("pressure_untouched", loc["pressure"][k], orig["pressure"][k])
        if gfile:
            env.claim_eq("psi_axis_gfile_scaled", loc["psi_axis_gfile"], pa / div)
            env.claim_eq("psi_bdry_gfile_scaled", loc["psi_bdry_gfile"], pb / div)
        else:
            env.claim("no_gfile_values_invented", loc["psi_axis_gfile"] is None and loc["psi_bdry_gfile"] is None)
        inc = loc["psi1D"][-1] > loc["psi1D"][0]
        if env.mode == "sym":
            env.claim("psi_increasing_flag", core.SymBool(core.lift_bool(inc) == z3.BoolVal(bool(me.psi_increasing))) if not isinstance(me.psi_increasing, core.SymBool)
                      else core.SymBool(core.lift_bool(me.psi_increasing) == core.lift_bool(inc)))
        else:
            env.claim("psi_increasing_flag", bool(me.psi_increasing) == bool(inc))
    return body


def ob_extrapolate(env, d2pi=False, rc=False):
    """extrapolate_profiles: the appended pressure values continue the profile: p0*exp((psi-psi0)*p'/p0), psi0 and p' in the flux the profile
    splines are built in (after psi_divide_twopi)"""
    sgn = -1.0 if rc else 1.0
    psi_sol = sgn * 50.0
    try:
        loc, orig, given, me, _ = c14.run_prologue(env, rc, d2pi, False, True, psi_sol=psi_sol)
    except UnboundLocalError as e:
        if "psiSOL" not in str(e):
            raise
        env.tag("no_extension_needed:constructor_stops_with_UnboundLocalError")   # profile already reaches psi_sol (DESIGN 7.5b)
        return
    env.witness("extrapolation_ran")
    psi1D, pressure, fpol1D = loc["psi1D"], loc["pressure"], loc["fpol1D"]
    n0 = 3
    env.claim("profiles_extended_together", len(psi1D) == len(pressure) == len(fpol1D) and len(psi1D) == n0 + 49)
    div = TWOPI if d2pi else 1.0
    p0, psi0 = orig["pressure"][-1], sgn * orig["psi1D"][-1] / div
    dpdpsi = (orig["pressure"][-1] - orig["pressure"][-2]) / (sgn * orig["psi1D"][-1] / div - sgn * orig["psi1D"][-2] / div)
    if env.mode == "sym":
        env.add_uf_axioms()
    for k in (n0, n0 + 1, n0 + 48):
        x = psi1D[k]
        if env.mode == "sym":
            want = p0 * ((x - psi0) * dpdpsi / p0).exp()
            env.add_uf_axioms()
        else:
            want = p0 * numpy.exp((x - psi0) * dpdpsi / p0)
        env.claim_eq("pressure_knot=p0*exp((psi-psi0)*p'/p0)", pressure[k], want)
        env.claim_eq("fpol_constant_in_SOL", fpol1D[k], orig["fpol1D"][-1])
    env.claim_eq("last_knot_at_psi_outer", psi1D[-1], psi_sol)
    env.claim("extended_abscissa_continues_outwards", psi1D[n0] < psi1D[n0 - 1] if rc else psi1D[n0] > psi1D[n0 - 1])


def ob_extrapolate_finite(env):
    """extrapolate_profiles with ANY admissible pressure profile (non-negative, possibly vanishing at the edge as measured profiles do): the extended
    pressure values are finite numbers (symbolic mode: no divisor of the extension can vanish; concrete replay: numpy.isfinite of the result)"""
    sym = env.mode == "sym"
    psi_sol = 50.0
    fn, info = c14.prologue()
    psi2D = c14.mkarr(env, "psi2D", (2, 2))
    psi1D = c14.mkarr(env, "psi1D", (3,))
    fpol1D = c14.mkarr(env, "fpol1D", (3,))
    pressure = c14.mkarr(env, "pressure", (3,), lo=0, hi=9)
    env.assume((psi1D[1] > psi1D[0]) & (psi1D[2] > psi1D[1]) if sym else (psi1D[1] > psi1D[0] and psi1D[2] > psi1D[1]), "psi1D increasing")
    me = types.SimpleNamespace(user_options=types.SimpleNamespace(reverse_current=False, psi_divide_twopi=False, reverse_Bt=False, extrapolate_profiles=True,
                                                                 psi_sol=psi_sol, psi_sol_inner=psi_sol))
    import warnings
    try:
        with warnings.catch_warnings():
            warnings.simplefilter("ignore")
            if sym:
                with patched((tok, "np", PROXY)):
                    fn.__globals__["np"] = PROXY
                    try:
                        loc = fn(me, None, None, psi2D, psi1D, fpol1D, pressure, None, None)
                    finally:
                        fn.__globals__["np"] = numpy
            else:
                loc = fn(me, None, None, psi2D, psi1D, fpol1D, pressure, None, None)
    except UnboundLocalError as e:
        if "psiSOL" not in str(e):
            raise
        env.tag("no_extension_needed:constructor_stops_with_UnboundLocalError")
        return
    if not sym:
        env.witness("extended")
        env.claim("extended_pressure_is_finite(no_division_by_a_vanishing_edge_value)", bool(numpy.all(numpy.isfinite(numpy.asarray(loc["pressure"], dtype=float)))))
    else:
        # force the appended values through the normal form while the divisor claim is armed (divisors are examined when a term is first used)
        env.claim("extension_ran_to_the_end", len(loc["pressure"]) == 3 + 49)
        # every division that enters an appended value (also inside the argument of exp) has a divisor that cannot vanish
        seen = set()

        def divisors(t):
            if t.get_id() in seen:
                return
            seen.add(t.get_id())
            if z3.is_app(t):
                if t.decl().kind() == z3.Z3_OP_DIV and not z3.is_rational_value(t.arg(1)):
                    yield t.arg(1)
                for ch in t.children():
                    yield from divisors(ch)
        for k in (3, 51):
            for dv in divisors(core.lift_real(loc["pressure"][k])):
                env.claim("extended_pressure_is_finite(no_division_by_a_vanishing_edge_value)", core.SymBool(dv != 0))
        env.witness("extended")


def _mk_extrapolate_range(decreasing):
    """extrapolate_profiles with different limits for the outer and the inner SOL: the profiles are extended to the limit that lies FURTHER out
    (larger psi if psi increases outwards, smaller if it decreases), so that no grid point falls beyond the extended profile"""
    def body(env):
        a, b = env.real("psi_sol", lo=-90, hi=90), env.real("psi_sol_inner", lo=-90, hi=90)
        try:
            loc, orig, given, me, _ = c14.run_prologue(env, False, False, False, True, psi_sol=a, psi_sol_inner=b, decreasing=decreasing)
        except UnboundLocalError as e:
            if "psiSOL" not in str(e):
                raise
            # seen while encoding (DESIGN 7.5b): with a pressure profile and no limit beyond the profile the constructor stops with this error
            env.tag("no_extension_needed:constructor_stops_with_UnboundLocalError")
            return
        psi1D, pressure, fpol1D = loc["psi1D"], loc["pressure"], loc["fpol1D"]
        edge = orig["psi1D"][-1]
        if len(psi1D) == 3:
            env.tag("not_extended")
            # not extended only if neither limit lies beyond the last profile point
            if decreasing:
                env.claim("not_extended_only_if_no_limit_lies_beyond_the_profile", (a >= edge) & (b >= edge) if env.mode == "sym" else (a >= edge and b >= edge))
            else:
                env.claim("not_extended_only_if_no_limit_lies_beyond_the_profile", (a <= edge) & (b <= edge) if env.mode == "sym" else (a <= edge and b <= edge))
            return
        env.tag("extended")
        env.witness("extended")
        last = psi1D[-1]
        if decreasing:
            env.claim("extended_to_the_further_of_the_two_sol_limits", (last <= a) & (last <= b) & ((last == a) | (last == b)) if env.mode == "sym"
                      else (last <= a + 1e-12 and last <= b + 1e-12))
        else:
            env.claim("extended_to_the_further_of_the_two_sol_limits", (last >= a) & (last >= b) & ((last == a) | (last == b)) if env.mode == "sym"
                      else (last >= a - 1e-12 and last >= b - 1e-12))
        env.claim("profiles_extended_together", len(psi1D) == len(pressure) == len(fpol1D))
    return body


_S = {}


def spline_slice():
    if "fn" not in _S:
        _S["fn"], _S["info"] = slices.slice_function(
            tok.TokamakEquilibrium.__init__, slices.is_assign_to("self.f_psi_sign"), lambda n: "meshgrid" in __import__("ast").unparse(n),
            ["self", "psi1D", "fpol1D", "pressure"], tok.__dict__, name="init_splines")
    return _S["fn"], _S["info"]


class SplineValue:
    """value of a stub spline: unpacks as (tag, spline, argument); a constant factor applied by the caller is remembered"""
    def __init__(self, spline, arg, factor=1.0):
        self.spline, self.arg, self.factor = spline, arg, factor

    def __iter__(self):
        return iter(("spline_value", self.spline, self.arg))

    def __rmul__(self, k):
        return SplineValue(self.spline, self.arg, self.factor * k)

    __mul__ = __rmul__

    def __getitem__(self, k):
        return ("spline_value", self.spline, self.arg)[k]


class SplineStub:
    def __init__(self, x, y, ext=None):
        self.x, self.y, self.ext = x, y, ext

    def __call__(self, arg):
        return SplineValue(self, arg)

    def derivative(self):
        return SplineStub(self.x, ("derivative", self.y), self.ext)


def _mk_splines(increasing):
    def body(env):
        fn, info = spline_slice()
        psi1D = c14.mkarr(env, "psi1D", (3,))
        fpol1D = c14.mkarr(env, "fpol1D", (3,))
        pressure = c14.mkarr(env, "pressure", (3,))
        up = (psi1D[1] > psi1D[0]) & (psi1D[2] > psi1D[1]) if env.mode == "sym" else (psi1D[1] > psi1D[0] and psi1D[2] > psi1D[1])
        dn = (psi1D[1] < psi1D[0]) & (psi1D[2] < psi1D[1]) if env.mode == "sym" else (psi1D[1] < psi1D[0] and psi1D[2] < psi1D[1])
        env.assume(up if increasing else dn, "monotone profile grid")
        me = tok.TokamakEquilibrium.__new__(tok.TokamakEquilibrium)
        with patched((tok, "interpolate", types.SimpleNamespace(InterpolatedUnivariateSpline=SplineStub))):
            fn.__globals__["interpolate"] = types.SimpleNamespace(InterpolatedUnivariateSpline=SplineStub)
            fn(me, psi1D, fpol1D, pressure)
        env.witness("splines_built")
        sgn = 1.0 if increasing else -1.0
        env.claim("f_psi_sign", me.f_psi_sign == sgn)
        for k in range(3):
            env.claim_eq("spline_abscissa=psi*sign", me.f_spl.x[k], psi1D[k] * sgn)
            env.claim_eq("f_spline_ordinates=fpol1D", me.f_spl.y[k], fpol1D[k])
            env.claim_eq("p_spline_ordinates=pressure", me.p_spl.y[k], pressure[k])
        env.claim("spline_abscissa_strictly_increasing", (me.f_spl.x[1] > me.f_spl.x[0]) & (me.f_spl.x[2] > me.f_spl.x[1]) if env.mode == "sym"
                  else (me.f_spl.x[1] > me.f_spl.x[0] and me.f_spl.x[2] > me.f_spl.x[1]))
        env.claim("boundary_values_outside_range(ext=3)", me.f_spl.ext == 3 and me.p_spl.ext == 3)
        # real fpol/pressure/fpolprime methods evaluate the splines at psi*f_psi_sign
        q = env.real("psi_query")
        tag, spl, arg = me.fpol(q)
        env.claim("fpol_uses_f_spline", spl is me.f_spl)
        env.claim_eq("fpol_evaluated_at_psi*sign", arg, q * sgn)
        tag, spl, arg = me.pressure(q)
        env.claim("pressure_uses_p_spline", spl is me.p_spl)
        env.claim_eq("pressure_evaluated_at_psi*sign", arg, q * sgn)
        fp_val = me.fpolprime(q)
        tag, spl, arg = fp_val
        env.claim("fpolprime_is_derivative_of_f_spline", spl.y[0] == "derivative" and spl.y[1] is me.f_spl.y)
        env.claim_eq("fpolprime_evaluated_at_psi*sign", arg, q * sgn)
        env.claim("fpolprime_carries_the_chain_rule_factor", fp_val.factor == sgn)
        # chain rule: fpolprime(psi) is d/dpsi of fpol(psi) = f_spl(psi*sign), i.e. sign * f_spl'(psi*sign).  The spline and its
        # derivative are an uninterpreted function pair (F, F'); the real methods run on a first-order jet in psi.
        from symx.jets import Jet1
        if env.mode == "sym":
            Fv, Fd = z3.Function("f_spline", z3.RealSort(), z3.RealSort()), z3.Function("f_spline_prime", z3.RealSort(), z3.RealSort())
            val = lambda u: SymReal(Fv(core.lift_real(u)))   # noqa: E731
            der = lambda u: SymReal(Fd(core.lift_real(u)))   # noqa: E731
        else:
            val = lambda u: 2.0 + 0.5 * u + 0.25 * u * u     # noqa: E731
            der = lambda u: 0.5 + 0.5 * u                    # noqa: E731
        real_f, real_fp = me.f_spl, me.fprime_spl
        me.f_spl = lambda u: Jet1(val(u.v), der(u.v) * u.d) if isinstance(u, Jet1) else val(u)
        me.fprime_spl = der
        env.claim_eq("fpolprime=d(fpol)/dpsi", me.fpolprime(q), me.fpol(Jet1(q, 1)).d)
        me.f_spl, me.fprime_spl = real_f, real_fp
        # Bt_axis
        me.psi_axis = q
        me.o_point = Point2D(env.real("R_axis", lo=1, hi=9), 0.0)
        me.f_spl = lambda x: x * 7  # linear stand-in so that the division can be checked
        env.claim_eq("Bt_axis=fpol(psi_axis)/R_axis", me.Bt_axis, (q * sgn * 7) / me.o_point.R)
    return body


def _mk_reflection(kind, psi_axis):
    """leg regions: pressure(psi) = p(psi_leg + s*|psi - psi_leg|), s = sign(psi_sep - psi_axis); core regions: p unchanged"""
    def body(env):
        P = z3.Function("pressure_profile", z3.RealSort(), z3.RealSort())
        calls = []

        def pre(eq):
            eq.p_spl = object()
            eq.psi_axis = psi_axis

            def pressure(psi):
                calls.append(psi)
                return SymReal(P(core.lift_real(psi))) if env.mode == "sym" else 100.0 + 3.0 * float(psi)
            eq.pressure = pressure
        eq, mesh, t, sym = c08.build(env, kind, 0, False, pre=pre)
        env.witness("regions_built")
        s = 1.0 if eq.psi_sep[0] - psi_axis > 0 else -1.0
        q = env.real("psi_query", lo=-9, hi=9)
        for name, reg in eq.regions.items():
            is_leg = "divertor" in name
            got = reg.pressure(q)
            if is_leg:
                # psi of the X-point this leg belongs to (the descriptor's region["psi"])
                xp_is_lower = "lower" in name
                first_is_lower = eq.x_points[0].Z < eq.o_point.Z
                leg_psi = eq.psi_sep[0] if (len(eq.psi_sep) == 1 or xp_is_lower == first_is_lower) else eq.psi_sep[1]
                d = q - leg_psi
                absd = core.ite(d >= 0, d, -d) if env.mode == "sym" else abs(d)
                want_arg = leg_psi + s * absd
                want = SymReal(P(core.lift_real(want_arg))) if env.mode == "sym" else 100.0 + 3.0 * float(want_arg)
                env.claim_eq("leg_pressure_reflected_about_separatrix:" + name, got, want)
            else:
                want = SymReal(P(core.lift_real(q))) if env.mode == "sym" else 100.0 + 3.0 * float(q)
                env.claim_eq("core_pressure_unreflected:" + name, got, want)
    return body


def ob_scalars(env):
    fn, info = slices.slice_function(
        tok.TokamakEquilibrium.__init__, lambda n: "len(opoints) == 0" in __import__("ast").unparse(n) and n.__class__.__name__ == "If",
        slices.is_assign_to("self.Rmin"), ["self", "opoints", "xpoints", "psi_axis_gfile", "psi_bdry_gfile"], tok.__dict__, name="init_scalars")
    me = types.SimpleNamespace(user_options=types.SimpleNamespace(reverse_current=False))
    ops = [(env.real("Ro%d" % k), env.real("Zo%d" % k), env.real("po%d" % k)) for k in range(2)]
    xps = [(env.real("Rx%d" % k), env.real("Zx%d" % k), env.real("px%d" % k)) for k in range(2)]
    fn(me, ops, xps, None, None)
    env.witness("scalars_assigned")
    env.claim_eq("psi_axis=psi_of_first_O_point", me.psi_axis, ops[0][2])
    env.claim_eq("o_point", me.o_point.R, ops[0][0])
    env.claim_eq("psi_bdry=psi_of_primary_X_point", me.psi_bdry, xps[0][2])
    env.claim_eq("x_points_in_order", me.x_points[1].Z, xps[1][1])
    env.claim_eq("psi_sep_in_order", me.psi_sep[1], xps[1][2])


for _rc in (False, True):
    for _d in (False, True):
        for _rb in (False, True):
            OBLIGATIONS.append(Ob("option_signs_rc%d_2pi%d_rbt%d" % (_rc, _d, _rb), _mk_signs(_rc, _d, _rb), tier="quick", family="constructor options",
                                  encodes=["hypnotoad.cases.tokamak:TokamakEquilibrium.__init__"],
                                  desc="psi arrays = input * (-1)^reverse_current / (2pi)^psi_divide_twopi, fpol * (-1)^reverse_Bt, gfile scalars scaled, psi_increasing flag",
                                  bounds="arrays 2x2 / length 3, symbolic contents"))
            OBLIGATIONS.append(Ob("option_signs_rc%d_2pi%d_rbt%d_from_arrays" % (_rc, _d, _rb), _mk_signs(_rc, _d, _rb, gfile=False), tier="quick", family="constructor options",
                                  encodes=["hypnotoad.cases.tokamak:TokamakEquilibrium.__init__"],
                                  desc="the same without psi_axis_gfile/psi_bdry_gfile (equilibrium built directly from arrays, not read from a geqdsk file)",
                                  bounds="arrays 2x2 / length 3, symbolic contents"))
OBLIGATIONS.append(Ob("extrapolated_pressure_finite", ob_extrapolate_finite, tier="quick", family="extrapolation",
                      encodes=["hypnotoad.cases.tokamak:TokamakEquilibrium.__init__"],
                      desc="extrapolate_profiles: for every non-negative pressure profile (also one that vanishes at the edge) the appended pressure values are finite",
                      bounds="profiles of length 3, pressure in [0, 9] symbolic"))
OBLIGATIONS.append(Ob("extrapolated_pressure_continuous", ob_extrapolate, tier="quick", family="extrapolation",
                      encodes=["hypnotoad.cases.tokamak:TokamakEquilibrium.__init__"],
                      desc="extrapolate_profiles: appended pressure knots = p0*exp((psi-psi0)*p'/p0) (continuous at the last profile point), fpol constant, abscissa to psi_sol",
                      stubs=["exp uninterpreted"], bounds="3 profile points, psi_sol=50 beyond the profile"))
OBLIGATIONS.append(Ob("extrapolated_pressure_continuous_psi_divide_twopi", lambda env: ob_extrapolate(env, d2pi=True), tier="quick", family="extrapolation",
                      encodes=["hypnotoad.cases.tokamak:TokamakEquilibrium.__init__"],
                      desc="extrapolate_profiles with psi_divide_twopi: edge value, edge gradient and decay of the appended pressure knots are all in the divided flux",
                      stubs=["exp uninterpreted"], bounds="3 profile points, psi_sol=50 beyond the profile"))
OBLIGATIONS.append(Ob("extrapolated_pressure_continuous_reverse_current", lambda env: ob_extrapolate(env, rc=True), tier="quick", family="extrapolation",
                      encodes=["hypnotoad.cases.tokamak:TokamakEquilibrium.__init__"],
                      desc="extrapolate_profiles with reverse_current (psi negated, decreasing outwards): edge value, edge gradient and decay of the appended pressure knots in the negated flux",
                      stubs=["exp uninterpreted"], bounds="3 profile points, psi_sol=-50 beyond the negated profile"))
for _inc in (True, False):
    OBLIGATIONS.append(Ob("profile_splines_psi_%s" % ("increasing" if _inc else "decreasing"), _mk_splines(_inc), tier="quick", family="profiles",
                          encodes=["hypnotoad.cases.tokamak:TokamakEquilibrium.__init__", "hypnotoad.cases.tokamak:TokamakEquilibrium.fpol",
                                   "hypnotoad.cases.tokamak:TokamakEquilibrium.pressure", "hypnotoad.cases.tokamak:TokamakEquilibrium.fpolprime",
                                   "hypnotoad.cases.tokamak:TokamakEquilibrium.Bt_axis"],
                          desc="spline abscissa psi*f_psi_sign strictly increasing, knots = the profiles, fpol/pressure/fpolprime evaluated at psi*f_psi_sign, Bt_axis",
                          stubs=["InterpolatedUnivariateSpline -> recorder"], bounds="3 knots, either direction"))
for _k in ("lsn", "usn", "cdn", "ldn", "udn"):
    for _pa in (0.0, 2.0):
        OBLIGATIONS.append(Ob("pressure_reflection_%s_%s" % (_k, "psi_increasing" if _pa == 0.0 else "psi_decreasing"), _mk_reflection(_k, _pa),
                              tier="quick" if _k in ("lsn", "udn") else "thorough", family="private flux reflection",
                              encodes=["hypnotoad.cases.tokamak:TokamakEquilibrium.createRegionObjects"],
                              desc="leg regions: pressure(psi) = p(psi_leg + sign(psi_sep-psi_axis)*|psi-psi_leg|); core regions: p(psi)",
                              stubs=["pressure profile uninterpreted"], bounds="sizes symbolic; psi_axis on either side of psi_sep"))
for _dec in (False, True):
    OBLIGATIONS.append(Ob("extrapolated_range_psi_%s" % ("decreasing" if _dec else "increasing"), _mk_extrapolate_range(_dec), tier="quick", family="constructor options",
                          encodes=["hypnotoad.cases.tokamak:TokamakEquilibrium.__init__"],
                          desc="extrapolate_profiles: profiles reach the further of psi_sol / psi_sol_inner in the outward direction of psi (both limits symbolic)",
                          bounds="3 profile knots, psi_sol and psi_sol_inner symbolic in [-90, 90]"))
OBLIGATIONS.append(Ob("scalars", ob_scalars, tier="quick", family="scalars", encodes=["hypnotoad.cases.tokamak:TokamakEquilibrium.__init__"],
                      desc="psi_axis, o_point, psi_bdry, x_points, psi_sep are taken from the first O-/X-point in the order returned", bounds="2 O-points, 2 X-points"))
# shared obligations
for _inc in (True, False):
    OBLIGATIONS.append(Ob("geometry1_fields_psi_%s" % ("increasing" if _inc else "decreasing"), c02._mk_geometry1(_inc), tier="quick", family="geometry1",
                          encodes=["hypnotoad.core.mesh:MeshRegion.geometry1"],
                          desc="Brxy, Bzxy from the equilibrium; Bpxy^2=Br^2+Bz^2 with one sign = sign(Bp.dy) = bpsign; Btxy=fpol/R; Bxy^2=Bp^2+Bt^2; pressure = region pressure; psixy",
                          stubs=["equilibrium functions -> symbolic arrays"], bounds="nx=1, ny=3"))
OBLIGATIONS.append(Ob("interpolant_closures", c18.ob_closures, tier="quick", family="closures", encodes=["hypnotoad.core.equilibrium:Equilibrium.magneticFunctionsFromGrid"],
                      desc="Bp_R = psi_Z/R, Bp_Z = -psi_R/R, f_R, f_Z, second derivatives", stubs=["RectBivariateSpline -> table"], bounds="point inside the box"))

import harness.c11 as _c11  # noqa: E402
OBLIGATIONS.append(Ob("file_header_scalars", _c11.ob_wall_output, tier="quick", family="scalars", encodes=["hypnotoad.core.mesh:BoutMesh.writeGridfile"],
                      desc="Bt_axis, psi_axis, psi_bdry (and the gfile values) written to the file are the equilibrium's attributes", stubs=["DataFile.write -> recorder"],
                      bounds="all values symbolic"))
