"""module-level task functions for real-multiprocessing replays (the queues use the standard pickler)"""


def failing_task(i, fail_at, *, equilibrium, psi, f_R, f_Z, **kw):
    if i == fail_at:
        raise RuntimeError("task %d failed" % i)
    return ("F", i)
