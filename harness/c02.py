"""C02 - metric tensor and Jacobian: real MeshRegion.geometry2 / calcBeta / calcMetric / geometry1 run on a
stub region whose MultiLocationArrays hold symbolic reals."""
import types
from fractions import Fraction

import numpy
import z3

from symx import core
from symx.core import SymReal, SymBool, sand
from symx.runner import registry
from harness.common import sym_numpy, mk_mla, mla_from, stub_region, MultiLocationArray, mesh_mod

OBLIGATIONS, obligation = registry()

META = {
    "explanation": "Real MeshRegion.geometry2, calcBeta, calcMetric and geometry1 (sign logic) are executed unmodified on a "
                   "1x1 (1x3 for geometry1) stub region whose arrays hold z3 reals (numpy object arrays).",
    "bounds": "no bound on the values: R>0, hy>0, Bp!=0 with sign(Bp)=bpsign, Bt free, beta free with cos(beta)!=0 "
              "(rational parametrisation cos=+-(1-t^2)/(1+t^2), sin=2t/(1+t^2), |t|<=3/4 i.e. |beta| <= 73.7 degrees, both signs of cos); "
              "I=0 as the code sets it; exact real arithmetic; region size 1x1 (the formulas are element-wise).",
    "out": "that hy, beta and Bp themselves are right (C05, C04, C03); floating-point rounding; ShiftTorsion (C06); curvature (C07).",
    "assumptions": ["DDX and calc_curvature are stubbed inside calcMetric (they are decided under C06/C07)",
                    "calcHy is stubbed by a positive symbolic array; equilibrium f_R/f_Z return grad(psi)/|grad(psi)|^2 of a locally linear psi",
                    "reals, not IEEE doubles"],
}

LOCS = ("centre", "ylow")


def _unit(env, name, lo=None, hi=None):
    """a unit vector (c, s) by rational parametrisation of the circle"""
    t = env.real(name, lo=lo, hi=hi)
    den = 1 + t * t
    return (1 - t * t) / den, 2 * t / den


def _loc_points(r):
    return [("centre", (0, 0)), ("ylow", (0, 0))]


def build(env, orthogonal, bpsign, cs=1.0, bt_sign=1.0, psi_div=None, hy_any_sign=False, locs=None, geometry=None):
    """stub region with symbolic R, hy, Bp, Bt (and beta) -> real geometry2 + calcMetric.
    geometry = dict(gsign=+-1[, share=<geometry of another build>]): non-orthogonal only - instead of symbolic cos/sin(beta), a stencil of grid points
    (radial displacement delta of symbolic direction and length at every centre/ylow entry) and the direction of grad(psi) are set up and the REAL
    calcBeta computes beta from them; the per-entry geometry is returned in r.geom (convention-free reference for the metric and curvature claims)."""
    LOCS_ = LOCS if locs is None else locs
    r = stub_region(1, 1, orthogonal)
    if env.mode == "conc":
        # concrete replays run in IEEE doubles: the code's own Jacobian self-check (rtol 1e-10) must not trip on rounding of ill-conditioned inputs
        r.user_options.geometry_rtol = 1.0e-6
    r.bpsign = bpsign
    r.Rxy = mk_mla(env, 1, 1, "R", LOCS_, pos=True)
    hy = mk_mla(env, 1, 1, "hy", LOCS_, pos=True)
    bpabs = mk_mla(env, 1, 1, "Bpabs", LOCS_, pos=True)
    bt = mk_mla(env, 1, 1, "Bt", LOCS_)
    chosen = None
    if hy_any_sign:
        # ONE entry (chosen by the explorer: every entry of every location in turn) is symbolic, with hy of either sign there; all other
        # entries hold fixed admissible numbers (the check is entry-wise)
        entries = [(loc, idx) for loc in LOCS_ for idx in numpy.ndindex(getattr(hy, loc).shape)]
        chosen = entries[env.choose(len(entries))]
        env.tag("free=%s%s" % (chosen[0], list(chosen[1])))
        for (loc, idx) in entries:
            if (loc, idx) == chosen:
                getattr(hy, loc)[idx] = env.real("hy_free_sign", nonzero=True)
            else:
                K = (lambda v: core.SymReal(core.lift_real(v))) if env.mode == "sym" else float
                getattr(r.Rxy, loc)[idx], getattr(hy, loc)[idx], getattr(bpabs, loc)[idx], getattr(bt, loc)[idx] = K(2.0), K(0.5), K(0.25), K(1.5)
    r.Bpxy = bpsign * bpabs
    if psi_div is not None:
        r.Bpxy = r.Bpxy / psi_div  # psi -> psi/k scales the poloidal field
    r.Btxy = bt_sign * bt
    if not orthogonal and geometry is not None:
        share = geometry.get("share")
        geom = {}
        x0R, x0Z = (share["x0"] if share else (env.real("x0R", lo=1, hi=10), env.real("x0Z", lo=-10, hi=10)))
        geom["x0"] = (x0R, x0Z)
        for loc in LOCS_:
            for idx in numpy.ndindex(getattr(hy, loc).shape):
                key = (loc, idx)
                if share:
                    p0 = share[key]
                    # same grid points, grad(psi) reversed
                    p = dict(cu=geometry["gsign"] * p0["cu0"], su=geometry["gsign"] * p0["su0"], cu0=p0["cu0"], su0=p0["su0"], d=p0["d"], cv=p0["cv"], sv=p0["sv"])
                else:
                    # direction of grad(psi): fixed (3/5, 4/5) - every expression involved is invariant under rotations of the poloidal plane, and a
                    # symbolic direction on top of the symbolic displacement direction makes the normal forms too large
                    cu0, su0 = Fraction(3, 5), Fraction(4, 5)
                    # radial displacement direction = dsign*(c0*g_hat + s0*b_hat) with c0 >= 7/25 by construction (|t| <= 3/4): it points towards
                    # increasing psi iff dsign = +1 (the x index increases with psi iff bpsign = +1)
                    c0, s0 = _unit(env, "v_%s_%d_%d" % ((loc,) + idx), lo=-0.75, hi=0.75)
                    dsign = geometry.get("dsign", 1.0)
                    cv, sv = dsign * (c0 * cu0 + s0 * su0), dsign * (c0 * su0 - s0 * cu0)
                    p = dict(cu=geometry["gsign"] * cu0, su=geometry["gsign"] * su0, cu0=cu0, su0=su0, d=env.real("d_%s_%d_%d" % ((loc,) + idx), pos=True), cv=cv, sv=sv)
                p["gmag"] = getattr(r.Rxy, loc)[idx] * getattr(bpabs, loc)[idx]        # |grad psi| = R |Bp|
                p["delta"] = (p["d"] * p["cv"], p["d"] * p["sv"])
                geom[key] = p
        # stencil: xlow rows give the centre displacement, corner rows the ylow displacements (column j)
        dc = geom[("centre", (0, 0))]["delta"]
        r.Rxy.xlow[0, 0], r.Rxy.xlow[1, 0] = x0R, x0R + dc[0]
        r.Zxy = MultiLocationArray(1, 1)
        r.Zxy.xlow[0, 0], r.Zxy.xlow[1, 0] = x0Z, x0Z + dc[1]
        for j in range(2):
            dj = geom[("ylow", (0, j))]["delta"]
            r.Rxy.corners[0, j], r.Rxy.corners[1, j] = x0R, x0R + dj[0]
            r.Zxy.corners[0, j], r.Zxy.corners[1, j] = x0Z, x0Z + dj[1]
        r.Zxy.centre[0, 0] = x0Z
        r.Zxy.ylow[0, :] = x0Z

        def fcomp(which):
            def f(Rarr, Zarr):
                loc = "centre" if numpy.shape(Rarr) == (1, 1) else "ylow"
                out = numpy.empty(numpy.shape(Rarr), dtype=object if env.mode == "sym" else float)
                for idx in numpy.ndindex(out.shape):
                    q = geom[(loc, idx)]
                    out[idx] = (q["cu"] if which == 0 else q["su"]) / q["gmag"]
                return out
            return f

        r.meshParent = types.SimpleNamespace(equilibrium=types.SimpleNamespace(f_R=fcomp(0), f_Z=fcomp(1)))
        if env.mode == "sym":
            env.sqrt_hints = list(getattr(env, "sqrt_hints", []))
            for q in geom.values():
                if isinstance(q, dict):
                    env.sqrt_hints += [core.lift_real(q["d"]), 1 / core.lift_real(q["gmag"])]
        r.geom = geom
    elif not orthogonal:
        cb = MultiLocationArray(1, 1)
        sb = MultiLocationArray(1, 1)
        for loc in LOCS_:
            for idx in numpy.ndindex(getattr(cb, loc).shape):
                if chosen is not None and (loc, idx) != chosen:
                    K = (lambda v: core.SymReal(core.lift_real(v))) if env.mode == "sym" else float
                    getattr(cb, loc)[idx], getattr(sb, loc)[idx] = K(cs * 0.8), K(0.6)
                    continue
                # |t| <= 3/4: cos >= 7/25 (beta up to ~74 degrees either side); sign of cos from cs
                c, s = _unit(env, "t_%s_%d_%d" % ((loc,) + idx), lo=-0.75, hi=0.75)
                getattr(cb, loc)[idx] = cs * c
                getattr(sb, loc)[idx] = s
        r.cosBeta, r.sinBeta = cb, sb
        r.tanBeta = sb / cb
    r.calcHy = lambda: hy
    if geometry is None:
        r.calcBeta = lambda: None
    r.DDX = lambda expr: MultiLocationArray(1, 1).zero()
    r.calc_curvature = lambda: None
    if env.mode == "sym":
        env.sqrt_hints = list(getattr(env, "sqrt_hints", [])) + [core.lift_real(getattr(r.Bpxy, loc)[idx]) / core.lift_real(getattr(hy, loc)[idx])
                                                                  for loc in LOCS_ for idx in numpy.ndindex(getattr(hy, loc).shape)]
    r.geometry2()
    return r, hy, bpabs


def run_metric(env, r):
    """real calcMetric; the Jacobian self-check must not be able to fire"""
    try:
        r.calcMetric()
    except ValueError as e:
        env.tag("jacobian_check_raised")
        env.claim("jacobian_selfcheck_cannot_fail", False)
        return False
    env.claim("jacobian_selfcheck_cannot_fail", True)
    return True


def _mk_jacobian_guard(orthogonal, bpsign):
    """the run-time Jacobian check is the last guard against a folded cell (hy <= 0) reaching the file: with hy of arbitrary sign at one
    entry (every entry of all four locations in turn), calcMetric returns only if that hy > 0"""
    def body(env):
        all_locs = ("centre", "xlow", "ylow", "corners")
        with sym_numpy(env):
            r, hy, bpabs = build(env, orthogonal, bpsign, hy_any_sign=True, locs=all_locs)
            try:
                r.calcMetric()
            except ValueError:
                env.tag("raised")
                neg = None
                for loc in all_locs:
                    for idx in numpy.ndindex(getattr(hy, loc).shape):
                        c = getattr(hy, loc)[idx] < 0
                        neg = c if neg is None else (neg | c if env.mode == "sym" else (neg or c))
                env.claim("raises_only_if_some_hy_is_negative", neg)
                return
        env.tag("returned")
        env.witness("returned")
        for loc in all_locs:
            for idx in numpy.ndindex(getattr(hy, loc).shape):
                env.claim("returns_only_if_hy>0_everywhere:%s" % loc, getattr(hy, loc)[idx] > 0)
    return body


def G(r, n, loc, idx):
    return getattr(getattr(r, n), loc)[idx]


def claims_inverse(env, r, loc, idx):
    g = lambda n: G(r, n, loc, idx)  # noqa
    up = [[g("g11"), g("g12"), g("g13")], [g("g12"), g("g22"), g("g23")], [g("g13"), g("g23"), g("g33")]]
    dn = [[g("g_11"), g("g_12"), g("g_13")], [g("g_12"), g("g_22"), g("g_23")], [g("g_13"), g("g_23"), g("g_33")]]
    for i in range(3):
        for k in range(i, 3):
            acc = 0
            for j in range(3):
                acc = acc + up[i][j] * dn[j][k]
            env.claim_eq("inv[%d%d]@%s" % (i + 1, k + 1, loc), acc, 1 if i == k else 0)
    # lower triangle separately (not symmetric a priori: up*dn vs dn*up)
    for i in range(3):
        for k in range(0, i):
            acc = 0
            for j in range(3):
                acc = acc + up[i][j] * dn[j][k]
            env.claim_eq("inv[%d%d]@%s" % (i + 1, k + 1, loc), acc, 0)
    det = (up[0][0] * up[1][1] * up[2][2] + 2 * up[0][1] * up[0][2] * up[1][2] - up[0][0] * up[1][2] ** 2
           - up[1][1] * up[0][2] ** 2 - up[2][2] * up[0][1] ** 2)
    J = g("J")
    env.claim_eq("J^2*det(g^ij)=1@" + loc, J * J * det, 1)
    return det


def _mk_inverse(orthogonal, bpsign, cs):
    def body(env):
        with sym_numpy(env):
            r, hy, bpabs = build(env, orthogonal, bpsign, cs)
            if not run_metric(env, r):
                return
            env.witness("calcMetric_returned")
            for loc, idx in _loc_points(r):
                claims_inverse(env, r, loc, idx)
                env.claim_eq("J=hy/Bp@" + loc, G(r, "J", loc, idx), getattr(hy, loc)[idx] / G(r, "Bpxy", loc, idx))
    return body


def _mk_reference(orthogonal, bpsign, cs):
    """each component against the closed-form locally field-aligned metric written here from the definition
    (I=0): nu = d(zShift)/dy = hy*Bt/(R*|Bp|) as the property defines zShift (integral of Bt/(R|Bp|) ds along increasing y)."""
    def body(env):
        with sym_numpy(env):
            r, hy_, bpabs_ = build(env, orthogonal, bpsign, cs)
            if not run_metric(env, r):
                return
            for loc, idx in _loc_points(r):
                g = lambda n: G(r, n, loc, idx)  # noqa
                R, Bp, Bt, hy, bpabs = g("Rxy"), g("Bpxy"), g("Btxy"), getattr(hy_, loc)[idx], getattr(bpabs_, loc)[idx]
                nu = hy * Bt / (R * bpabs)
                if orthogonal:
                    cosb, tanb = 1, 0
                else:
                    cosb, tanb = g("cosBeta"), g("tanBeta")
                A = lambda n, v: env.claim_eq("%s@%s" % (n, loc), g(n), v)  # noqa
                A("g11", (R * Bp) ** 2)
                A("g22", 1 / (hy * cosb) ** 2)
                A("g33", 1 / R ** 2 + nu ** 2 / (hy * cosb) ** 2)
                A("g_22", hy ** 2 + (R * nu) ** 2)
                A("g_33", R ** 2)
                A("g_11", 1 / (R * Bp * cosb) ** 2)
                A("g_13", 0)
                # y-z coupling must match the toroidal shift stored in the same file: g_23 = g_33 * d(zShift)/dy
                A("g_23", R ** 2 * nu)
                A("g23", -nu / (hy * cosb) ** 2)
                # dphidy as documented
                env.claim_eq("dphidy@" + loc, g("dphidy"), hy * Bt / (Bp * R))
                # beta-dependent off-diagonal: magnitude here, sign in the displacement obligation
                env.claim_eq("g12^2@" + loc, g("g12") ** 2, (R * Bp * tanb / hy) ** 2)
                env.claim_eq("g13=-nu*g12@" + loc, g("g13"), -nu * g("g12"))
                if orthogonal:
                    A("g12", 0)
                    A("g13", 0)
                    A("g_12", 0)
    return body


for _orth in (True, False):
    for _bs in (1.0, -1.0):
        for _cs in ((1.0,) if _orth else (1.0, -1.0)):
            _n = "%s_bpsign%+d%s" % ("orth" if _orth else "nonorth", int(_bs), "" if _orth else "_cos%+d" % int(_cs))
            OBLIGATIONS.append(__import__("symx.runner", fromlist=["Ob"]).Ob(
                "inverse_" + _n, _mk_inverse(_orth, _bs, _cs), tier="quick", family="calcMetric",
                desc="g^ij g_jk = delta (all 9), J=hy/Bp, J^2 det(g^ij)=1, Jacobian self-check infeasible to fail",
                encodes=["hypnotoad.core.mesh:MeshRegion.calcMetric", "hypnotoad.core.mesh:MeshRegion.geometry2"],
                stubs=["DDX -> 0", "calc_curvature -> no-op", "calcHy -> positive symbols"], bounds="all reals (see META)"))
            OBLIGATIONS.append(__import__("symx.runner", fromlist=["Ob"]).Ob(
                "reference_" + _n, _mk_reference(_orth, _bs, _cs), tier="quick", family="calcMetric",
                desc="each component equals the closed-form field-aligned expression; g_23 = g_33 d(zShift)/dy",
                encodes=["hypnotoad.core.mesh:MeshRegion.calcMetric", "hypnotoad.core.mesh:MeshRegion.geometry2"],
                stubs=["DDX -> 0", "calc_curvature -> no-op", "calcHy -> positive symbols"], bounds="all reals (see META)"))


# ---------------------------------------------------------------------------------------------
# (d) displacement form.  Two composable steps:
#  d1: the real calcBeta computes cosBeta = ex_hat . gradpsi_hat and sinBeta = ex_hat . Bp_hat  (Bp_hat = gradpsi_hat rotated
#      clockwise) from the positions of the x-faces / corners and the equilibrium's f_R, f_Z;
#  d2: with beta *defined* by those two scalar products (delta = d*(cos(beta)*gradpsi_hat + sin(beta)*Bp_hat)), the real
#      calcMetric's covariant components equal the scalar products of the displacements per unit dx and dy.
def _mk_calcbeta():
    def body(env):
        with sym_numpy(env):
            r = stub_region(1, 1, False)
            r.bpsign = 1.0 if env.choose(2) == 0 else -1.0
            pts = {}
            for loc in LOCS:
                gmag = env.real("gmag_" + loc, pos=True)
                cu, su = _unit(env, "u_" + loc)
                d = env.real("d_" + loc, pos=True)
                cv, sv = _unit(env, "v_" + loc)
                pts[loc] = dict(gmag=gmag, cu=cu, su=su, d=d, delta=(d * cv, d * sv))
            x0R, x0Z = env.real("x0R", lo=1, hi=10), env.real("x0Z", lo=-10, hi=10)
            r.Rxy = MultiLocationArray(1, 1)
            r.Zxy = MultiLocationArray(1, 1)
            r.Rxy.xlow[0, 0], r.Zxy.xlow[0, 0] = x0R, x0Z
            r.Rxy.xlow[1, 0], r.Zxy.xlow[1, 0] = x0R + pts["centre"]["delta"][0], x0Z + pts["centre"]["delta"][1]
            for j in range(2):
                r.Rxy.corners[0, j], r.Zxy.corners[0, j] = x0R, x0Z
                r.Rxy.corners[1, j], r.Zxy.corners[1, j] = x0R + pts["ylow"]["delta"][0], x0Z + pts["ylow"]["delta"][1]
            Rc = env.real("Rc", pos=True)
            r.Rxy.centre[0, 0] = Rc
            r.Rxy.ylow[0, :] = Rc
            r.Zxy.centre[0, 0] = x0Z
            r.Zxy.ylow[0, :] = x0Z

            def fcomp(which):
                def f(Rarr, Zarr):
                    loc = "centre" if numpy.shape(Rarr) == (1, 1) else "ylow"
                    p = pts[loc]
                    val = (p["cu"] if which == 0 else p["su"]) / p["gmag"]
                    out = numpy.empty(numpy.shape(Rarr), dtype=object if env.mode == "sym" else float)
                    out[...] = val
                    return out
                return f

            r.meshParent = types.SimpleNamespace(equilibrium=types.SimpleNamespace(f_R=fcomp(0), f_Z=fcomp(1)))
            if env.mode == "sym":
                env.sqrt_hints = []
                for loc in LOCS:
                    env.sqrt_hints += [core.lift_real(pts[loc]["d"]), 1 / core.lift_real(pts[loc]["gmag"])]
            r.calcBeta()
            env.witness("calcBeta_returned")
            for loc in LOCS:
                p = pts[loc]
                g = lambda n: G(r, n, loc, (0, 0))  # noqa
                env.claim_eq("cosBeta=ex_hat.gradpsi_hat@" + loc, g("cosBeta") * p["d"], p["delta"][0] * p["cu"] + p["delta"][1] * p["su"])
                # (the sign convention of sin(beta) is not a property: what the metric built on it must satisfy is decided in displacement_bpsign*)
                env.claim_eq("sinBeta^2=(ex_hat.Bp_hat)^2@" + loc, (g("sinBeta") * p["d"]) ** 2, (p["delta"][0] * p["su"] - p["delta"][1] * p["cu"]) ** 2)
                env.claim_eq("tanBeta=sin/cos@" + loc, g("tanBeta") * g("cosBeta"), g("sinBeta"))
                env.claim_eq("cos^2+sin^2=1@" + loc, g("cosBeta") ** 2 + g("sinBeta") ** 2, 1)
            # every metric component is written at centre, xlow and ylow (BoutMesh.writeArray): beta has to exist at the x-faces too, otherwise the
            # location array there is created on first access, filled with zeros, and zeros are what the file gets
            for n in ("cosBeta", "sinBeta", "tanBeta"):
                env.claim("beta_defined_at_the_x_faces(the_metric_is_written_there):" + n, getattr(r, n)._xlow_array is not None)
    return body


def real_beta_at_point(env, ghat, gmag, bpsign, name="pt"):
    """run the REAL calcBeta on a one-cell stencil whose radial displacement is d*dsign*(c0*g_hat + s0*b_hat) (b_hat = g_hat rotated clockwise = direction of
    Bp; dsign = bpsign: the x index increases with psi iff bpsign = +1) -> dict(cosb, sinb, tanb, delta, d).  Convention-free way to obtain the beta that
    belongs to a given grid geometry."""
    c0, s0 = _unit(env, "beta_dir_" + name, lo=-0.75, hi=0.75)
    d = env.real("beta_len_" + name, pos=True)
    bhat = (ghat[1], -ghat[0])
    dv = (bpsign * (c0 * ghat[0] + s0 * bhat[0]), bpsign * (c0 * ghat[1] + s0 * bhat[1]))
    delta = (d * dv[0], d * dv[1])
    r0 = stub_region(1, 1, False)
    r0.bpsign = bpsign
    x0R, x0Z = env.real("beta_x0R_" + name, lo=1, hi=10), env.real("beta_x0Z_" + name, lo=-10, hi=10)
    r0.Rxy, r0.Zxy = MultiLocationArray(1, 1), MultiLocationArray(1, 1)
    r0.Rxy.xlow[0, 0], r0.Rxy.xlow[1, 0] = x0R, x0R + delta[0]
    r0.Zxy.xlow[0, 0], r0.Zxy.xlow[1, 0] = x0Z, x0Z + delta[1]
    for j in range(2):
        r0.Rxy.corners[0, j], r0.Rxy.corners[1, j] = x0R, x0R + delta[0]
        r0.Zxy.corners[0, j], r0.Zxy.corners[1, j] = x0Z, x0Z + delta[1]
    r0.Rxy.centre[0, 0], r0.Zxy.centre[0, 0] = x0R, x0Z
    r0.Rxy.ylow[0, :] = x0R
    r0.Zxy.ylow[0, :] = x0Z

    def fcomp(which):
        def f(Rarr, Zarr):
            out = numpy.empty(numpy.shape(Rarr), dtype=object if env.mode == "sym" else float)
            out[...] = ghat[which] / gmag
            return out
        return f

    r0.meshParent = types.SimpleNamespace(equilibrium=types.SimpleNamespace(f_R=fcomp(0), f_Z=fcomp(1)))
    if env.mode == "sym":
        env.sqrt_hints = list(getattr(env, "sqrt_hints", [])) + [core.lift_real(d), 1 / core.lift_real(gmag)]
    r0.calcBeta()
    return dict(cosb=r0.cosBeta.centre[0, 0], sinb=r0.sinBeta.centre[0, 0], tanb=r0.tanBeta.centre[0, 0], delta=delta, d=d, bhat=bhat)


def _mk_displacement(bpsign):
    """convention-free: the grid points (radial displacement delta between the x-faces) and the direction of grad(psi) are the inputs, the REAL
    calcBeta turns them into beta, the real calcMetric into the metric; the claims compare with scalar products of the displacement vectors"""
    def body(env):
        with sym_numpy(env):
            # the x index increases with psi iff bpsign = +1: the displacement between the x-faces points along bpsign*grad(psi) (plus a tangential part)
            r, hy_, bpabs_ = build(env, False, bpsign, geometry={"gsign": 1.0, "dsign": bpsign})
            if not run_metric(env, r):
                return
            for loc in LOCS:
                idx = (0, 0)
                g = lambda n: G(r, n, loc, idx)  # noqa
                q = r.geom[(loc, idx)]
                R, hy = g("Rxy"), getattr(hy_, loc)[idx]
                gmag = q["gmag"]
                ghat, bhat = (q["cu"], q["su"]), (q["su"], -q["cu"])     # grad(psi) direction, Bp direction (grad psi rotated clockwise)
                delta = q["delta"]
                dx = gmag * (delta[0] * ghat[0] + delta[1] * ghat[1])     # psi difference between the x-faces, locally linear psi
                ex = (delta[0] / dx, delta[1] / dx)
                # increasing-y unit vector on the flux surface = sign(Bp.y)*Bp_hat with sign(Bp.y)=bpsign (geometry1 enforces it)
                ey = (hy * bpsign * bhat[0], hy * bpsign * bhat[1])
                env.claim_eq("g_11=e_x.e_x@" + loc, g("g_11"), ex[0] * ex[0] + ex[1] * ex[1])
                env.claim_eq("g_12=e_x.e_y@" + loc, g("g_12"), ex[0] * ey[0] + ex[1] * ey[1])
                env.claim_eq("g_12^2=(e_x.e_y)^2@" + loc, g("g_12") ** 2, (ex[0] * ey[0] + ex[1] * ey[1]) ** 2)
                env.claim_eq("g_22-(R*dphi/dy)^2=e_y.e_y@" + loc, g("g_22") - (R * g("dphidy")) ** 2, ey[0] * ey[0] + ey[1] * ey[1])
                # contravariant: grad x = grad psi; grad y = dual of e_y in the poloidal plane
                det2 = ex[0] * ey[1] - ex[1] * ey[0]
                grady = (-ex[1] / det2, ex[0] / det2)
                gradx = (gmag * ghat[0], gmag * ghat[1])
                env.claim_eq("gradx.e_x=1@" + loc, gradx[0] * ex[0] + gradx[1] * ex[1], 1)
                env.claim_eq("g12=gradx.grady@" + loc, g("g12"), gradx[0] * grady[0] + gradx[1] * grady[1])
                env.claim_eq("g12^2=(gradx.grady)^2@" + loc, g("g12") ** 2, (gradx[0] * grady[0] + gradx[1] * grady[1]) ** 2)
                env.claim_eq("g22=|grady|^2@" + loc, g("g22"), grady[0] ** 2 + grady[1] ** 2)
                # d(zShift)/dy = hy*Bt/(R|Bp|) (C06): g13 = gradx.gradz with gradz = grad(zeta) - nu*grady, g_23 = e_y.e_z + ... is covered by the inverse
                nu = hy * g("Btxy") / (R * getattr(bpabs_, loc)[idx])
                env.claim_eq("g13=-nu*gradx.grady@" + loc, g("g13"), -nu * (gradx[0] * grady[0] + gradx[1] * grady[1]))
    return body


from symx.runner import Ob  # noqa: E402

OBLIGATIONS.append(Ob(
    "calcBeta_scalar_products", _mk_calcbeta(), tier="quick", family="calcBeta",
    desc="real calcBeta: cosBeta = ex_hat.gradpsi_hat, |sinBeta| = |ex_hat.Bp_hat|, tan = sin/cos at centre and ylow (both bpsign)",
    encodes=["hypnotoad.core.mesh:MeshRegion.calcBeta"],
    stubs=["f_R,f_Z = grad(psi)/|grad(psi)|^2 (symbolic direction and magnitude)"],
    bounds="directions by rational parametrisation; all magnitudes > 0"))
for _bs in (1.0, -1.0):
    OBLIGATIONS.append(Ob(
        "displacement_bpsign%+d" % int(_bs), _mk_displacement(_bs), tier="quick", family="calcMetric",
        desc="covariant (and poloidal contravariant) components equal scalar products of the actual displacements per unit dx, dy",
        encodes=["hypnotoad.core.mesh:MeshRegion.calcMetric"],
        stubs=["grid points and grad(psi) direction symbolic; REAL calcBeta", "locally linear psi", "calcHy -> symbols", "DDX -> 0"],
        bounds="directions by rational parametrisation; all magnitudes > 0"))


# ---------------------------------------------------------------------------------------------
# (f) geometry1 sign logic
def _mk_geometry1(psi_increasing):
    def body(env):
        with sym_numpy(env):
            nx, ny = 1, 3
            r = stub_region(nx, ny, True)
            locs = ("centre", "ylow", "xlow", "corners")
            r.Rxy = mk_mla(env, nx, ny, "R", locs, pos=True)
            r.Zxy = mk_mla(env, nx, ny, "Z", locs)
            p0, p1, p2 = env.real("psi0"), env.real("psi1"), env.real("psi2")
            if psi_increasing:
                env.assume((p0 < p1) & (p1 < p2))
            else:
                env.assume((p0 > p1) & (p1 > p2))
            r.psi_vals = numpy.array([p0, p1, p2], dtype=object if env.mode == "sym" else float)
            # equilibrium functions: uninterpreted functions of the POINT they are evaluated at (of psi for fpol), applied entry by entry, so that
            # a value taken at another location's coordinates / another location's psi is a different term
            sym = env.mode == "sym"
            ufs = {}

            def field(name, nargs, conc):
                if sym:
                    ufs[name] = z3.Function(name, *([z3.RealSort()] * (nargs + 1)))

                def f(*args):
                    out = MultiLocationArray(nx, ny)
                    for loc in locs:
                        arrs = [getattr(a, loc) for a in args]
                        if any(a is None for a in arrs):
                            continue
                        dst = getattr(out, loc)
                        for idx in numpy.ndindex(dst.shape):
                            vals = [a[idx] for a in arrs]
                            dst[idx] = core.SymReal(ufs[name](*[core.lift_real(v) for v in vals])) if sym else conc(*[float(v) for v in vals])
                    return out
                return f

            f_psi = field("psi_of_RZ", 2, lambda R, Z: 0.3 * R - 0.2 * Z + 0.05 * R * Z)
            f_br = field("Br_of_RZ", 2, lambda R, Z: 0.7 + 0.1 * R + 0.3 * Z)
            f_bz = field("Bz_of_RZ", 2, lambda R, Z: -0.4 + 0.2 * R - 0.1 * Z)
            f_fpol = field("fpol_of_psi", 1, lambda p: 2.0 + 0.5 * p + 0.25 * p * p)
            psi, br, bz = f_psi(r.Rxy, r.Zxy), f_br(r.Rxy, r.Zxy), f_bz(r.Rxy, r.Zxy)
            fp = f_fpol(psi)
            pr = mk_mla(env, nx, ny, "pres", locs)
            for loc in locs:
                env.assume(sand(*[(a * a + b * b > 0) for a, b in zip(getattr(br, loc).flat, getattr(bz, loc).flat)]) if sym else
                           all(a * a + b * b > 0 for a, b in zip(getattr(br, loc).flat, getattr(bz, loc).flat)), "Bp != 0")
            seen_pressure_arg = []
            eqr = types.SimpleNamespace(pressure=lambda x: (seen_pressure_arg.append(x), pr)[1])
            r.meshParent = types.SimpleNamespace(
                dy_scalar=env.real("dy", pos=True),
                equilibrium=types.SimpleNamespace(psi=f_psi, Bp_R=f_br, Bp_Z=f_bz, fpol=f_fpol, regions={"stub": eqr}))
            r.calcPoloidalDistance = lambda: None
            try:
                r.geometry1()
            except ValueError:
                env.tag("raised")
                # raising is the documented refusal; the claim is about the returning paths
                env.claim("geometry1_raises_only_on_sign_mismatch", True)
                # the raise must be justified: Bp.dy direction and psi direction disagree
                j = ny // 2
                dot = br.centre[-1, j] * (r.Rxy.centre[-1, j + 1] - r.Rxy.centre[-1, j - 1]) + bz.centre[-1, j] * (
                    r.Zxy.centre[-1, j + 1] - r.Zxy.centre[-1, j - 1])
                env.claim("raise_justified", (dot < 0) if psi_increasing else (dot >= 0))
                return
            env.tag("returned")
            env.witness("geometry1_returned")
            bps = 1.0 if psi_increasing else -1.0
            env.claim("bpsign_value", r.bpsign == bps)
            for loc in locs:
                B = getattr(r.Bpxy, loc)
                for idx in numpy.ndindex(B.shape):
                    env.claim("sign(Bpxy)=bpsign@%s" % loc, B[idx] * bps > 0)
                    env.claim_eq("Bpxy^2=Br^2+Bz^2@%s" % loc, B[idx] * B[idx], getattr(br, loc)[idx] ** 2 + getattr(bz, loc)[idx] ** 2)
                    env.claim_eq("Btxy=fpol/R@%s" % loc, getattr(r.Btxy, loc)[idx], getattr(fp, loc)[idx] / getattr(r.Rxy, loc)[idx])
                    env.claim_eq("Bxy^2=Bp^2+Bt^2@%s" % loc, getattr(r.Bxy, loc)[idx] ** 2, B[idx] ** 2 + getattr(r.Btxy, loc)[idx] ** 2)
                    env.claim("Bxy>=0@%s" % loc, getattr(r.Bxy, loc)[idx] >= 0)
            j = ny // 2
            dot = br.centre[-1, j] * (r.Rxy.centre[-1, j + 1] - r.Rxy.centre[-1, j - 1]) + bz.centre[-1, j] * (
                r.Zxy.centre[-1, j + 1] - r.Zxy.centre[-1, j - 1])
            env.claim("sign(Bp.dy)=bpsign", (dot >= 0) if psi_increasing else (dot < 0))
            env.claim_eq("dx.centre", r.dx.centre[0, 0], p2 - p0)
            env.claim_eq("dx.ylow", r.dx.ylow[0, 0], p2 - p0)
            for loc in locs:
                for idx in numpy.ndindex(getattr(psi, loc).shape):
                    env.claim_eq("psixy=psi(R,Z)_of_the_same_point@%s" % loc, getattr(r.psixy, loc)[idx], getattr(psi, loc)[idx])
            env.claim("pressure_is_region_pressure_of_psixy", r.pressure is pr and len(seen_pressure_arg) == 1 and seen_pressure_arg[0] is r.psixy)
    return body


for _inc in (True, False):
    OBLIGATIONS.append(Ob(
        "geometry1_signs_psi_%s" % ("increasing" if _inc else "decreasing"), _mk_geometry1(_inc), tier="quick", family="geometry1",
        desc="after geometry1 returns: sign(Bpxy) uniform = bpsign = sign of psi direction = sign(Bp.dy); Bt=fpol/R; B^2=Bp^2+Bt^2; dx",
        encodes=["hypnotoad.core.mesh:MeshRegion.geometry1"],
        stubs=["equilibrium psi/Bp_R/Bp_Z/fpol/pressure -> symbolic arrays", "calcPoloidalDistance -> no-op"],
        bounds="nx=1, ny=3 (smallest size geometry1's probe cell indexing admits), all values real"))

# hy is the link between the grid and the metric (g22 = 1/hy^2, J = hy/Bp, ...): the obligations deciding that hy*dy is the arc length are C05's
def _hy_chain(periodic):
    def body(env):
        import harness.c05 as m   # resolved at call time (no import cycle at load time)
        return m._mk_hy(periodic)(env)
    return body


for _p in (False, True):
    OBLIGATIONS.append(Ob("hy_is_arc_length_per_dy_%s_chain" % ("periodic" if _p else "open"), _hy_chain(_p), tier="quick", family="calcHy",
                          encodes=["hypnotoad.core.mesh:MeshRegion.calcHy"],
                          desc="hy*dy = arc between y-faces (centre) / adjacent centres (ylow, also across region joins): the hy that enters g22, g_22 and J is the grid's own (shared with C05)",
                          stubs=["contour distances symbolic, strictly increasing"], bounds="2 regions, nx=1, ny=2"))
