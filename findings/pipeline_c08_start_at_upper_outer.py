#!/usr/bin/env python
"""
Pipeline-level confirmation of the C08 finding 'start_at_upper_outer with a disconnected double null: ixseps1/ixseps2 assigned as for
the standard region order' (adapted from the demo a sub-agent wrote for seeded/C08-udn-ixseps-order-swapped): real grid files for LDN and UDN
with start_at_upper_outer=True; ixseps1/2 from the file must describe the adjacency that the corner coordinates in the same file show.

BOUT++ meaning (disconnected double null):
  * ixseps1 is the x-index of the separatrix through the X-point at the *first/last*
    branch cuts, i.e. between y=jyseps1_1|jyseps1_1+1 and y=jyseps2_2|jyseps2_2+1
    (the lower X-point with hypnotoad's default region ordering).
    For x < ixseps1 cell (x, jyseps1_1) is NOT joined to (x, jyseps1_1+1); for
    x >= ixseps1 it is.
  * ixseps2 is the x-index of the separatrix through the X-point at the *middle*
    branch cuts, y=jyseps2_1|jyseps2_1+1 and y=jyseps1_2|jyseps1_2+1 (upper X-point).
    For x < ixseps2 cell (x, jyseps2_1) is NOT joined to (x, jyseps2_1+1); for
    x >= ixseps2 it is.

The demo builds small lower- and upper-disconnected-double-null grids, writes the grid
file, and compares ixseps1/2 from the file with the values implied by the corner
positions.  Exit status 0 if consistent, 1 otherwise.
"""
import contextlib
import io
import os
import sys
import tempfile
import warnings

import numpy as np

HERE = os.path.dirname(os.path.abspath(__file__))


def find_example():
    import hypnotoad

    root = os.path.dirname(os.path.dirname(os.path.abspath(hypnotoad.__file__)))
    p = os.path.join(root, "examples", "tokamak")
    if not os.path.isdir(p):
        raise RuntimeError("cannot find examples/tokamak next to hypnotoad package")
    return p


def make_grid(geometry, outdir, nx_inter_sep, myg, suo=True):
    sys.path.insert(0, find_example())
    from tokamak_example import create_tokamak
    from hypnotoad import tokamak
    from hypnotoad.core.mesh import BoutMesh

    options = dict(
        psinorm_core=0.8,
        psinorm_sol=1.2,
        psinorm_pf=0.9,
        ny_inner_lower_divertor=3,
        ny_inner_sol=5,
        ny_inner_upper_divertor=4,
        ny_outer_upper_divertor=3,
        ny_outer_sol=4,
        ny_outer_lower_divertor=5,
        nx_core=2,
        nx_pf=2,
        nx_inter_sep=nx_inter_sep,
        nx_sol=3,
        psi_spacing_separatrix_multiplier=0.5,
        target_all_poloidal_spacing_length=0.3,
        xpoint_poloidal_spacing_length=0.05,
        y_boundary_guards=myg,
        finecontour_Nfine=100,
        number_of_processors=1,
        start_at_upper_outer=suo,
    )
    r1d, z1d, psi2d, psi1d = create_tokamak(geometry=geometry, nx=65, ny=65)
    wall_extra = 0.2
    rmin, rmax = min(r1d) + wall_extra, max(r1d) - wall_extra
    zmin, zmax = min(z1d) + wall_extra, max(z1d) - wall_extra
    eq = tokamak.TokamakEquilibrium(
        r1d,
        z1d,
        psi2d,
        psi1d,
        fpol1D=[],
        settings=options,
        wall=[(rmin, zmin), (rmin, zmax), (rmax, zmax), (rmax, zmin)],
    )
    mesh = BoutMesh(eq, options)
    mesh.geometry()
    fname = os.path.join(outdir, "grid_" + geometry + ".nc")
    mesh.writeGridfile(fname)
    return fname, eq.double_null_type


def check_file(fname, label):
    from netCDF4 import Dataset

    with Dataset(fname) as ds:
        g = {
            k: int(np.asarray(ds[k][...]))
            for k in [
                "nx",
                "ny",
                "ixseps1",
                "ixseps2",
                "jyseps1_1",
                "jyseps2_1",
                "jyseps1_2",
                "jyseps2_2",
                "ny_inner",
                "y_boundary_guards",
            ]
        }
        c = {}
        for n in ["corners", "upper_left_corners"]:
            c[n] = np.stack(
                [np.asarray(ds["Rxy_" + n][...]), np.asarray(ds["Zxy_" + n][...])], -1
            )
    myg = g["y_boundary_guards"]
    nx = g["nx"]

    # index into the arrays (which include y-boundary guard cells) of y-index j (which
    # does not count them); upper-target guard cells sit in the middle of the arrays
    def arr(j):
        return j + myg + (2 * myg if j >= g["ny_inner"] else 0)

    def joined(x, j):
        # is the upper edge of cell (x, j) the lower edge of cell (x, j+1)?
        # compare the left-hand corner (the right-hand one is then the left-hand one
        # of x+1)
        a = c["upper_left_corners"][x, arr(j)]
        b = c["corners"][x, arr(j + 1)]
        return np.allclose(a, b, rtol=0, atol=1e-8)

    def first_joined(j):
        flags = [joined(x, j) for x in range(nx)]
        # must be monotonic: not joined for small x, joined for large x
        k = flags.index(True) if True in flags else nx
        if any(flags[:k]) or not all(flags[k:]):
            raise AssertionError(f"{label}: non-monotonic adjacency at j={j}: {flags}")
        return k

    exp1 = first_joined(g["jyseps1_1"])
    exp1b = first_joined(g["jyseps2_2"])
    exp2 = first_joined(g["jyseps2_1"])
    exp2b = first_joined(g["jyseps1_2"])
    print(
        f"{label}: file ixseps1={g['ixseps1']} ixseps2={g['ixseps2']}; corners imply "
        f"ixseps1={exp1} (other side {exp1b}), ixseps2={exp2} (other side {exp2b})"
    )
    ok = True
    if exp1 != exp1b or exp2 != exp2b:
        print(f"{label}: FAIL inner/outer side of an X-point disagree")
        ok = False
    if g["ixseps1"] != exp1:
        print(f"{label}: FAIL ixseps1 in file {g['ixseps1']} != {exp1} from corners")
        ok = False
    if g["ixseps2"] != exp2:
        print(f"{label}: FAIL ixseps2 in file {g['ixseps2']} != {exp2} from corners")
        ok = False
    return ok


def main():
    ok = True
    with tempfile.TemporaryDirectory() as d:
        for geometry, nis, myg in [("ldn", 1, 0), ("udn", 1, 0)]:
            # hypnotoad prints a lot of progress information
            with contextlib.redirect_stdout(io.StringIO()), warnings.catch_warnings():
                warnings.simplefilter("ignore")
                fname, dntype = make_grid(geometry, d, nis, myg)
            label = f"{geometry}[{dntype}, nx_inter_sep={nis}, myg={myg}]"
            ok = check_file(fname, label) and ok
    if ok:
        print("PASS: ixseps1/ixseps2 agree with the corner adjacency")
        return 0
    print("FAIL: ixseps1/ixseps2 do not describe the adjacency of the corners")
    return 1


if __name__ == "__main__":
    sys.exit(main())
