import sys, io, contextlib, warnings, os
sys.path.insert(0, "/repo")
sys.path.insert(0, "/repo/examples/tokamak")
warnings.filterwarnings("ignore")
import numpy as np
from hypnotoad.cases import tokamak
from hypnotoad.core.mesh import BoutMesh
from tokamak_example import create_tokamak

SN = dict(psinorm_core=0.9, psinorm_sol=1.1, psinorm_pf=0.95,
          ny_inner_divertor=4, ny_sol=8, ny_outer_divertor=4,
          nx_core=4, nx_sol=4, y_boundary_guards=2,
          target_all_poloidal_spacing_length=0.3, xpoint_poloidal_spacing_length=0.05,
          finecontour_Nfine=200)
DN = dict(psinorm_core=0.9, psinorm_sol=1.1, psinorm_pf=0.95,
          ny_inner_lower_divertor=4, ny_inner_upper_divertor=4, ny_inner_sol=4,
          ny_outer_sol=4, ny_outer_lower_divertor=4, ny_outer_upper_divertor=4,
          nx_core=4, nx_inter_sep=2, nx_sol=4, y_boundary_guards=2,
          target_all_poloidal_spacing_length=0.3, xpoint_poloidal_spacing_length=0.05,
          finecontour_Nfine=200)

def fpol_func(psi, sign=1.0):
    return sign * (2.0 + 0.5 * psi ** 2)

def make(geom, quiet=True, geometry=True, fsign=1.0, psisign=1.0, n=65, wall_extra=0.2, zwall=None, **over):
    opts = dict(SN if "sn" in geom else DN)
    opts.update(over)
    r1d, z1d, psi2d, psi1d = create_tokamak(geometry=geom, nx=n, ny=n)
    psi2d = psisign * psi2d
    psi1d = np.linspace(psi2d.min(), psi2d.max(), 101)
    fpol1d = fpol_func(psi1d, fsign)
    rmin = min(r1d) + wall_extra; rmax = max(r1d) - wall_extra
    zmin = min(z1d) + wall_extra; zmax = max(z1d) - wall_extra
    if zwall is not None:
        zmin, zmax = -zwall, zwall
    buf = io.StringIO()
    ctx = contextlib.redirect_stdout(buf) if quiet else contextlib.nullcontext()
    with ctx:
        eq = tokamak.TokamakEquilibrium(r1d, z1d, psi2d, psi1d, fpol1d, settings=opts,
            nonorthogonal_settings=opts,
            wall=[(rmin, zmin), (rmin, zmax), (rmax, zmax), (rmax, zmin)])
        mesh = BoutMesh(eq, opts)
        mesh.calculateRZ()
        if geometry:
            mesh.geometry()
    return eq, mesh

def write(mesh, fname):
    buf = io.StringIO()
    with contextlib.redirect_stdout(buf):
        mesh.writeGridfile(fname)
    from netCDF4 import Dataset
    return Dataset(fname)
