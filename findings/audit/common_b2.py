import sys, os, io, contextlib, warnings
import numpy as np
sys.path.insert(0, "/repo/examples/tokamak")
from tokamak_example import create_tokamak
from hypnotoad import tokamak
from hypnotoad.core.mesh import BoutMesh

def build(geometry="lsn", opts=None, nonorth=None, quiet=True, wall=None, ngrid=65, do_geometry=False):
    options = dict(
        orthogonal=False,
        nx_core=3, nx_sol=3, nx_pf=3, nx_inter_sep=2,
        ny_inner_divertor=4, ny_outer_divertor=4, ny_sol=8,
        ny_inner_lower_divertor=4, ny_outer_lower_divertor=4,
        ny_inner_upper_divertor=4, ny_outer_upper_divertor=4,
        ny_inner_sol=4, ny_outer_sol=4,
        psinorm_core=0.9, psinorm_sol=1.1, psinorm_pf=0.9,
        target_all_poloidal_spacing_length=0.3,
        xpoint_poloidal_spacing_length=0.3,
        y_boundary_guards=1,
        finecontour_Nfine=100,
    )
    if opts: options.update(opts)
    r1d, z1d, psi2d, psi1d = create_tokamak(geometry=geometry, nx=ngrid, ny=ngrid)
    wall_extra = 0.2
    rmin = min(r1d) + wall_extra; rmax = max(r1d) - wall_extra
    zmin = min(z1d) + wall_extra; zmax = max(z1d) - wall_extra
    if wall is None:
        wall = [(rmin, zmin), (rmin, zmax), (rmax, zmax), (rmax, zmin)]
    full = dict(options)
    if nonorth: full.update(nonorth)
    buf = io.StringIO()
    cm = contextlib.redirect_stdout(buf) if quiet else contextlib.nullcontext()
    with cm, warnings.catch_warnings():
        warnings.simplefilter("ignore")
        eq = tokamak.TokamakEquilibrium(r1d, z1d, psi2d, psi1d, fpol1D=[], settings=options,
                                        nonorthogonal_settings=nonorth or {}, wall=wall)
        mesh = BoutMesh(eq, options)
        if do_geometry:
            mesh.geometry()
    return eq, mesh, options

def patch_extend_tolerance():
    """Scratch workaround (NOT a source change): make checkFineContourExtend robust to rounding."""
    import numpy
    import hypnotoad.core.equilibrium as E
    def checkFineContourExtend(self, *, psi):
        fine_contour = self.get_fine_contour(psi=psi)
        tol = 1.0e-9
        p = numpy.array([*self[0]])
        distances = numpy.sqrt(numpy.sum((fine_contour.positions - p[numpy.newaxis, :]) ** 2, axis=1))
        minind = numpy.argmin(distances)
        sp = numpy.sqrt(numpy.sum((fine_contour.positions[1, :] - fine_contour.positions[0, :]) ** 2))
        if minind == 0 and distances[1] > sp * (1 + tol) + tol:
            ds = fine_contour.distance[1] - fine_contour.distance[0]
            n_extend_lower = max(int(numpy.ceil(distances[0] / ds)), 1)
        else:
            n_extend_lower = 0
        p = numpy.array([*self[-1]])
        distances = numpy.sqrt(numpy.sum((fine_contour.positions - p[numpy.newaxis, :]) ** 2, axis=1))
        minind = numpy.argmin(distances)
        sp = numpy.sqrt(numpy.sum((fine_contour.positions[-1, :] - fine_contour.positions[-2, :]) ** 2))
        if minind == len(distances) - 1 and distances[-2] > sp * (1 + tol) + tol:
            ds = fine_contour.distance[-1] - fine_contour.distance[-2]
            n_extend_upper = max(int(numpy.ceil(distances[-1] / ds)), 1)
        else:
            n_extend_upper = 0
        if n_extend_lower == 0 and n_extend_upper == 0:
            return
        fine_contour.extend(psi=psi, extend_lower=n_extend_lower, extend_upper=n_extend_upper)
        self.checkFineContourExtend(psi=psi)
    E.PsiContour.checkFineContourExtend = checkFineContourExtend
