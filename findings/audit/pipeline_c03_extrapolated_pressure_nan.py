"""
TokamakEquilibrium.__init__ (hypnotoad/cases/tokamak.py:389-422), extrapolate_profiles=True.

(a) The outer psi limit of the extrapolated profile is taken from the raw options
    user_options.psi_sol / user_options.psi_sol_inner, which default to None (the
    documented way of setting the SOL boundary is psinorm_sol, default 1.1; psi_sol
    "Overrides psinorm_sol if this value is given").  With the default/psinorm settings
    max(None, None) raises TypeError, so extrapolate_profiles=True only works when BOTH
    psi_sol and psi_sol_inner are given explicitly; psinorm_sol is ignored here.

(b) When the last two input pressure values are zero (very common in EFIT g-files),
    dpdpsi/p0 = 0/0 = nan, the appended SOL pressure is nan, and the pressure spline
    returns nan EVERYWHERE (also in the core).  Expected: the input profile in the core
    and 0 (the continuous continuation of p=0, dp/dpsi=0) in the SOL.
"""
import io, contextlib, warnings
import numpy as np
warnings.filterwarnings("ignore")
from hypnotoad.cases import tokamak

r0, z0 = 1.5, 0.3
def psi_func(R, Z):
    return (np.exp(-((R - r0) ** 2 + Z ** 2) / 0.3**2)
            + np.exp(-((R - r0) ** 2 + (Z + 2 * z0) ** 2) / 0.3**2))
r1d = np.linspace(1.0, 2.0, 65); z1d = np.linspace(-0.7, 0.7, 65)
r2d, z2d = np.meshgrid(r1d, z1d, indexing="ij")
psi2d = psi_func(r2d, z2d)
psi_axis, psi_sep = 1.0198648778889943, 0.7357596127915078   # O-point / X-point of psi_func
n = 65
psi1d = np.linspace(psi_axis, psi_sep, n)     # as read_geqdsk builds it
fpol = np.ones(n)
wall = [(1.2, -0.5), (1.2, 0.5), (1.8, 0.5), (1.8, -0.5)]

def build(settings, pressure):
    with contextlib.redirect_stdout(io.StringIO()):
        return tokamak.TokamakEquilibrium(r1d, z1d, psi2d, psi1d, fpol, pressure=pressure,
                                          wall=wall, settings=settings, make_regions=False)

discrepancy = False
print("(a) extrapolate_profiles=True with SOL boundary given as psinorm_sol (the default way)")
pres = np.linspace(1000.0, 10.0, n)
try:
    eq = build(dict(extrapolate_profiles=True, psinorm_sol=1.2), pres)
    print("    built OK")
except Exception as e:
    discrepancy = True
    print("    raised", type(e).__name__ + ":", e)
eq = build(dict(extrapolate_profiles=False, psinorm_sol=1.2), pres)
print("    (same input with extrapolate_profiles=False builds fine)")

print("(b) pressure profile whose last two values are 0")
pres0 = np.concatenate([np.linspace(1000.0, 0.0, n - 2), [0.0, 0.0]])
psi_sol = psi_axis + 1.2 * (psi_sep - psi_axis)
eq = build(dict(extrapolate_profiles=True, psi_sol=psi_sol, psi_sol_inner=psi_sol), pres0)
test_psi = np.array([psi1d[10], psi1d[40], psi_sep, 0.5 * (psi_sep + psi_sol), psi_sol])
expected = np.array([pres0[10], pres0[40], 0.0, 0.0, 0.0])
got = eq.pressure(test_psi)
print("    psi      :", test_psi)
print("    expected :", expected)
print("    got      :", got)
if not np.allclose(got, expected, atol=1e-6):
    discrepancy = True
print("RESULT:", "DISCREPANCY" if discrepancy else "no discrepancy")
