"""
repro_3: MeshRegion.capBpYlowXpoint (mesh.py l.951-995, option cap_Bp_ylow_xpoint=True)
compares the *signed* Bpxy with a signed "minimum": `Bp_min = min(Bpxy.centre...)`,
`if self.Bpxy.ylow[i, 0] < Bp_min`.  geometry1() has already multiplied Bpxy by -1 when
psi decreases outwards (bpsign = -1, the usual case of psi maximal on axis), so for
Bp < 0 `min` picks the value of largest magnitude and the test `<` is never true at the
X-point: the option silently does nothing.  For Bp > 0 it caps |Bp|.

Expectation (C16, field reversal): the grids generated from psi and from -psi have
identical positions and |Bpxy| at every location; only signs differ.
"""
import sys
import os, sys; sys.path.insert(0, os.path.dirname(os.path.abspath(__file__)))
from common import *

res = {}
for psisign in (1.0, -1.0):
    eq, mesh = make("lsn", psisign=psisign, cap_Bp_ylow_xpoint=True)
    res[psisign] = mesh
    eq0, mesh0 = (eq, mesh)
a, b = res[1.0], res[-1.0]
print("bpsign for +psi:", a.regions[0].bpsign, " for -psi:", b.regions[0].bpsign)
print("max |Rxy_ylow(+psi) - Rxy_ylow(-psi)| =", np.abs(a.Rxy.ylow - b.Rxy.ylow).max())
for name in ["Bpxy", "hy", "J", "g22", "g_22", "dphidy"]:
    for loc in ["centre", "ylow"]:
        fa = np.abs(getattr(getattr(a, name), loc)); fb = np.abs(getattr(getattr(b, name), loc))
        if loc == "ylow":
            fa = fa[:, :-1]; fb = fb[:, :-1]
        d = np.abs(fa - fb) / fb
        ij = np.unravel_index(np.argmax(d), d.shape)
        print(f"|{name}|.{loc}: max rel diff between +psi and -psi grids = {d.max():.3e} at {ij}:"
              f" {fa[ij]:.6g} vs {fb[ij]:.6g}")
# independent value: |Bp| of the equilibrium at the ylow points
for tag, m in (("+psi", a), ("-psi", b)):
    Bp_true = np.sqrt(m.equilibrium.Bp_R(m.Rxy.ylow, m.Zxy.ylow) ** 2
                      + m.equilibrium.Bp_Z(m.Rxy.ylow, m.Zxy.ylow) ** 2)
    ncapped = (np.abs(np.abs(m.Bpxy.ylow) - Bp_true)[:, :-1] > 1e-12).sum()
    print(f"{tag}: number of ylow points where |Bpxy_ylow| was changed by the cap: {ncapped}")
