"""
TokamakEquilibrium.createRegionObjects (hypnotoad/cases/tokamak.py:1645-1670):
with start_at_upper_outer=True the region ordering list is
  [outer_upper_divertor, outer_core, outer_lower_divertor, inner_lower_divertor, core,
   inner_core, inner_upper_divertor]
It contains "core", i.e. it is meant to cope with single null too, but for a LOWER SINGLE
NULL it orders the regions [outer_lower_divertor, inner_lower_divertor, core]: the outer
leg (X-point -> target) comes first, then the inner leg (target -> X-point), then the core.
BoutMesh lays the regions out in y in this order and writes the single-null jyseps
indices, so a topologically wrong grid file is written without any error.

Independent expectation: in a single null the SOL flux tube is one continuous line from
the inner target to the outer target, so (i) each region's upper SOL connection must be the
next region in the ordering (the last has none), and (ii) consecutive cell centres along y
on a SOL flux surface of the written grid are neighbours (no jump across the machine).
"""
import io, contextlib, sys, warnings
import numpy as np
warnings.filterwarnings("ignore")
from hypnotoad.cases import tokamak
from hypnotoad.core.mesh import BoutMesh

r0, z0 = 1.5, 0.3
def psi_func(R, Z):
    return (np.exp(-((R - r0) ** 2 + Z ** 2) / 0.3**2)
            + np.exp(-((R - r0) ** 2 + (Z + 2 * z0) ** 2) / 0.3**2))
r1d = np.linspace(1.0, 2.0, 65); z1d = np.linspace(-0.7, 0.7, 65)
r2d, z2d = np.meshgrid(r1d, z1d, indexing="ij")
settings = dict(psinorm_core=0.8, psinorm_sol=1.2, psinorm_pf=0.9, nx_core=5, nx_sol=5,
                psi_spacing_separatrix_multiplier=0.5, target_all_poloidal_spacing_length=0.3,
                xpoint_poloidal_spacing_length=0.05, y_boundary_guards=2,
                start_at_upper_outer=True)

def check(start_at_upper_outer, write):
    s = dict(settings, start_at_upper_outer=start_at_upper_outer)
    with contextlib.redirect_stdout(io.StringIO()):
        eq = tokamak.TokamakEquilibrium(
            r1d, z1d, psi_func(r2d, z2d), psi_func(np.linspace(r0, 1.2 * r0, 65), 0.0),
            np.array([]), settings=s, wall=[(1.2, -0.5), (1.2, 0.5), (1.8, 0.5), (1.8, -0.5)])
    names = list(eq.regions)
    chain_ok = all(
        eq.regions[a].connections[1]["upper"] == (b, 1) for a, b in zip(names[:-1], names[1:])
    ) and eq.regions[names[-1]].connections[1]["upper"] is None
    print(f"start_at_upper_outer={start_at_upper_outer}: y-order of regions = {names}")
    print(f"    SOL: every region's upper neighbour is the next region in y: {chain_ok}")
    jump = None
    if write:
        from boututils.datafile import DataFile
        fn = "/tmp/wt/A3_out/_repro4.nc"
        with contextlib.redirect_stdout(io.StringIO()):
            mesh = BoutMesh(eq, s)
            mesh.geometry()
            mesh.writeGridfile(fn)
        with DataFile(fn) as f:
            R, Z = f.read("Rxy"), f.read("Zxy")
            js = {k: int(f.read(k)) for k in ["jyseps1_1", "jyseps2_1", "jyseps1_2", "jyseps2_2"]}
        ix = R.shape[0] - 3   # a SOL flux surface
        d = np.hypot(np.diff(R[ix, :]), np.diff(Z[ix, :]))
        jump = d.max() / np.median(d)
        print(f"    grid file written without error, {js}")
        print(f"    SOL flux surface ix={ix}: max/median distance between y-neighbours = {jump:.1f}"
              f" (largest step {d.max():.3f} m at j={d.argmax()}->{d.argmax()+1}:"
              f" R {R[ix, d.argmax()]:.3f}->{R[ix, d.argmax()+1]:.3f})")
    return chain_ok, jump

ok_ref, jump_ref = check(False, "--fast" not in sys.argv)
ok_suo, jump_suo = check(True, "--fast" not in sys.argv)
bad = (not ok_suo) or (jump_suo is not None and jump_suo > 3 * jump_ref)
print("RESULT:", "DISCREPANCY" if bad else "no discrepancy")
