"""
poloidal_distance is discontinuous across region joins when the FineContour of a
non-first region in a y-group has been extended at its lower end (then
PsiContour.get_distance()[startInd] != 0, but calcPoloidalDistance only subtracts the
start offset for the FIRST region of the y-group).

Expectation (C05): the upper edge of region A and the lower edge of the y-connected
region B are the same physical points, so poloidal_distance must be equal there, and
poloidal_distance at the first point of every contour of B must equal A's value at its
last point.
"""
import os, sys; sys.path.insert(0, os.path.dirname(os.path.abspath(__file__)))
from common_b2 import *
geom = sys.argv[1] if len(sys.argv) > 1 else "lsn"
nfine = int(sys.argv[2]) if len(sys.argv) > 2 else 80
eq, mesh, options = build(geom, opts=dict(xpoint_poloidal_spacing_length=0.05, y_boundary_guards=1, finecontour_Nfine=nfine))
psi = eq.psi
print("start offsets get_distance()[startInd] in regions that are not first in their y-group:")
for reg in mesh.regions.values():
    if reg.yGroupIndex != 0:
        offs = [c.get_distance(psi=psi)[c.startInd] for c in reg.contours]
        fext = [c.get_fine_contour(psi=psi).extend_lower_fine for c in reg.contours]
        if max(abs(o) for o in offs) > 1e-10:
            print("  ", reg.name, "yGroupIndex", reg.yGroupIndex, "offsets", np.array(offs), "fine extend_lower", fext)
for reg in mesh.regions.values():
    reg.calcPoloidalDistance()
worst = 0
for reg in mesh.regions.values():
    up = reg.getNeighbour("upper")
    if up is None or up.yGroupIndex == 0:
        continue
    jump_ylow = up.poloidal_distance.ylow[:, 0] - reg.poloidal_distance.ylow[:, -1]
    jump_corner = up.poloidal_distance.corners[:, 0] - reg.poloidal_distance.corners[:, -1]
    # physical points coincide?
    sep = max(np.hypot(c1[c1.endInd].R - c2[c2.startInd].R, c1[c1.endInd].Z - c2[c2.startInd].Z)
              for c1, c2 in zip(reg.contours, up.contours))
    print(f"{reg.name} -> {up.name}: max physical separation of shared points {sep:.2e}; "
          f"poloidal_distance jump ylow {np.max(np.abs(jump_ylow)):.3e} corners {np.max(np.abs(jump_corner)):.3e}")
    worst = max(worst, np.max(np.abs(jump_ylow)), np.max(np.abs(jump_corner)))
print("WORST JUMP", worst, "(expected ~0; fine spacing is ~ L/Nfine)")
