"""
repro_5: on non-orthogonal grids the metric written at the xlow location is not a
metric.  calcBeta() (mesh.py l.1474-1549) only fills cosBeta/sinBeta/tanBeta at centre
and ylow, so g22, g12, g13, g23, g33, g_11, g_12 (and curl_bOverB_y/z, bxcvy/z) have no
xlow part in the regions; BoutMesh.writeArray() then writes `array.xlow[:-1, :]`, which
the MultiLocationArray getter auto-creates as zeros.  g11_xlow, g_22_xlow, g_33_xlow,
g_23_xlow, J_xlow, hy_xlow are written with real values.

Expectation (C02): at every output location g^ij and g_ij are inverses and
|J| = 1/sqrt(det g^ij); an orthogonal grid from the same input satisfies this at xlow.
"""
import os, sys; sys.path.insert(0, os.path.dirname(os.path.abspath(__file__)))
from common import *

for orth in (True, False):
    eq, mesh = make("ldn", orthogonal=orth, zwall=0.42)
    ds = write(mesh, f"/tmp/repro_5_{int(orth)}.nc")
    g = lambda k: np.array(ds[k][...])
    print("orthogonal =", orth)
    for loc in ["", "_ylow", "_xlow"]:
        nx, ny = g("g11" + loc).shape
        G = np.zeros((nx, ny, 3, 3)); Gc = np.zeros((nx, ny, 3, 3))
        for (a, b, n) in [(0,0,"11"),(1,1,"22"),(2,2,"33"),(0,1,"12"),(0,2,"13"),(1,2,"23")]:
            G[..., a, b] = G[..., b, a] = g("g" + n + loc)
            Gc[..., a, b] = Gc[..., b, a] = g("g_" + n + loc)
        err = np.abs(np.einsum("xyab,xybc->xyac", G, Gc) - np.eye(3)).max()
        det = np.linalg.det(G)
        with np.errstate(all="ignore"):
            jerr = np.nanmax(np.abs(np.abs(g("J" + loc)) * np.sqrt(np.abs(det)) - 1))
        zeros = [n for n in ["g11","g22","g33","g12","g23","g_11","g_22","g_33","g_12","g_23","curl_bOverB_y","bxcvz"]
                 if np.all(g(n + loc) == 0.0)]
        print(f"   location '{loc or 'centre'}': max|g^ij g_jk - I| = {err:.2e}; max||J| sqrt(det g^ij) - 1| = {jerr:.2e}; identically zero: {zeros}")
