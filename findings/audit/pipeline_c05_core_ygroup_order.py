"""
repro_4: in double-null grids the periodic core y-group starts at the *outer* core
region (Mesh.makeRegions, mesh.py l.2757-2765: when no region with
connections['lower'] is None is left, the `for` loop falls through and `first_region`
is the LAST element of region_list, i.e. outer_core, not the first).  calcZShift(),
calcPoloidalDistance() and chi all take yGroupIndex==0 as their origin, so

 * poloidal_distance on closed surfaces is measured from the upper X-point at the start
   of the outer core and is not increasing with y through the core (C05, and
   doc/grid-file.rst: "from the poloidal location of the lower X-point"),
 * the single jump of size ShiftAngle in zShift sits between jyseps2_1 and jyseps1_2+1
   (inner core -> outer core, where BOUT++ communicates without twist-shift) instead
   of at the core branch cut jyseps2_2 -> jyseps1_1+1 where BOUT++ applies ShiftAngle
   (C06/C08),
 * chi does not go from 0 to 2pi with y (C08, doc: "goes from 0 to 2pi in the core").

Independent expectation: the single-null grid (one core region) starts all three at
the first core cell; BOUT++'s index meaning says the core is traversed
jyseps1_1+1..jyseps2_1 then jyseps1_2+1..jyseps2_2 and closes with the twist-shift.
"""
import os, sys; sys.path.insert(0, os.path.dirname(os.path.abspath(__file__)))
from common import *
from netCDF4 import Dataset

eq, mesh = make("ldn")
print("y-groups (region names in order):")
for g in mesh.y_groups:
    print("   ", [r.name for r in g])
ds = write(mesh, "/tmp/repro_4.nc")
g = lambda k: np.array(ds[k][...])
myg = int(g("y_boundary_guards"))
j11, j21, j12, j22 = (int(g(k)) for k in ["jyseps1_1", "jyseps2_1", "jyseps1_2", "jyseps2_2"])
# global y indices (with guards) of the core cells, in BOUT++ y order
inner = np.arange(j11 + 1, j21 + 1) + myg
outer = np.arange(j12 + 1, j22 + 1) + 3 * myg
core = np.concatenate([inner, outer])
np.set_printoptions(precision=4, linewidth=200, suppress=True)
x = 0
print("core cells in y order (x=0):")
print("  theta             ", g("theta")[x, core])
print("  poloidal_distance ", g("poloidal_distance")[x, core])
print("  zShift            ", g("zShift")[x, core])
print("  chi               ", g("chi")[x, core])
SA = g("ShiftAngle")[x]
z = g("zShift")[x]
cell = z[inner[1]] - z[inner[0]]
print(f"ShiftAngle[{x}] = {SA:.4f}; typical zShift increment per cell ~ {cell:.4f}")
print(f"zShift step inner core end -> outer core start (no twist-shift in BOUT++): {z[outer[0]] - z[inner[-1]]:.4f}")
print(f"zShift step outer core end -> inner core start (+ShiftAngle applied by BOUT++): {z[inner[0]] - z[outer[-1]]:.4f}  (expected ~ cell increment - ShiftAngle = {cell - SA:.4f})")
pd = g("poloidal_distance")[x, core]
chi = g("chi")[x, core]
ok = np.all(np.diff(pd) > 0) and np.all(np.diff(chi) > 0) and abs(z[outer[0]] - z[inner[-1]]) < 0.5 * SA
print("poloidal_distance increasing through core:", bool(np.all(np.diff(pd) > 0)))
print("chi increasing through core:", bool(np.all(np.diff(chi) > 0)))
print("consistent" if ok else "DISCREPANCY")
