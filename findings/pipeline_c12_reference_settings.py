"""Whole-pipeline confirmation for the C12 finding 'shipped reference settings are rejected by hypnotoad-geqdsk':
writes a geqdsk file for the analytic connected-double-null example and runs the real command-line entry point with the
shipped geqdsk_cdn.yaml.  Before the fix the run stops at once with "options in the input file that are not used";
after it the run goes on into grid generation (which may take minutes).  Usage: python pipeline_c12_reference_settings.py [workdir]"""
import os
import runpy
import sys
import tempfile

import numpy as np

REPO = os.environ.get("HYPNOTOAD_REPO", "/repo")
work = sys.argv[1] if len(sys.argv) > 1 else tempfile.mkdtemp(prefix="c12ref_")
os.makedirs(work, exist_ok=True)
os.chdir(work)
ex = runpy.run_path(os.path.join(REPO, "examples/tokamak/tokamak_example.py"))
r1d, z1d, psi2d, psi1d = ex["create_tokamak"]("cdn", nx=65, ny=65)
from hypnotoad.geqdsk._geqdsk import write  # noqa: E402
from hypnotoad.cases import tokamak  # noqa: E402
nx, ny = len(r1d), len(z1d)
probe = tokamak.TokamakEquilibrium(r1d, z1d, psi2d, psi1d, np.ones(nx), make_regions=False)
data = {"nx": nx, "ny": ny, "rdim": r1d[-1] - r1d[0], "zdim": z1d[-1] - z1d[0], "rcentr": 1.5, "bcentr": 1.0, "rleft": r1d[0], "zmid": 0.0,
        "rmagx": probe.o_point.R, "zmagx": probe.o_point.Z, "simagx": float(probe.psi_axis), "sibdry": float(probe.psi_sep[0]), "cpasma": -1.0e6,
        "fpol": np.ones(nx), "pres": np.zeros(nx), "qpsi": np.ones(nx), "psi": psi2d}
with open("cdn.geqdsk", "w") as fh:
    write(data, fh)
sys.argv = ["hypnotoad-geqdsk", "cdn.geqdsk", os.path.join(REPO, "geqdsk_cdn.yaml")]
from hypnotoad.scripts.hypnotoad_geqdsk import main  # noqa: E402
try:
    main()
    print("RESULT: grid generated, file present:", os.path.exists("bout.grd.nc"))
except ValueError as e:
    msg = str(e)
    print("RESULT: ValueError:", msg[:300])
    sys.exit(1 if "not used" in msg else 3)
