import sys, numpy as np, warnings
warnings.filterwarnings("ignore")
sys.path.insert(0, "/repo/examples/tokamak")
from tokamak_example import create_tokamak
from hypnotoad import tokamak
from hypnotoad.core.mesh import BoutMesh
import io, contextlib

def run(geometry, orthogonal, flip):
    r1d, z1d, psi2d, psi1d = create_tokamak(geometry=geometry, nx=65, ny=65)
    if flip:
        psi2d = -psi2d; psi1d = -psi1d
    opts = dict(orthogonal=orthogonal, nx_core=3, nx_sol=3, nx_pf=3, ny_inner_divertor=4, ny_outer_divertor=4, ny_sol=8,
                psinorm_core=0.9, psinorm_sol=1.1, psinorm_pf=0.95, number_of_processors=1, finecontour_Nfine=200,
                y_boundary_guards=0)
    fpol = 3.0 + 0*psi1d
    we=0.2
    wall=[(1+we,-0.7+we),(1+we,0.7-we),(2-we,0.7-we),(2-we,-0.7+we)]
    buf = io.StringIO()
    with contextlib.redirect_stdout(buf):
        eq = tokamak.TokamakEquilibrium(r1d, z1d, psi2d, psi1d, fpol1D=fpol, settings=opts, wall=wall)
        mesh = BoutMesh(eq, opts)
        mesh.geometry()
    out = {}
    for reg in mesh.regions.values():
        R, Z = reg.Rxy, reg.Zxy
        dx = reg.dx.centre; dy = reg.dy.centre
        ex = np.stack([(R.xlow[1:, :]-R.xlow[:-1, :])/dx, (Z.xlow[1:, :]-Z.xlow[:-1, :])/dx])
        ey = np.stack([(R.ylow[:, 1:]-R.ylow[:, :-1])/dy, (Z.ylow[:, 1:]-Z.ylow[:, :-1])/dy])
        g12_fd = (ex*ey).sum(0)
        g11_fd = (ex*ex).sum(0)
        dz = (reg.zShift.ylow[:, 1:]-reg.zShift.ylow[:, :-1])/dy
        out[reg.name] = dict(bpsign=reg.bpsign,
              g_12=(np.mean(reg.g_12.centre*g12_fd)/np.mean(np.abs(reg.g_12.centre*g12_fd)+1e-300)),
              maxabs_g_12=np.abs(reg.g_12.centre).max(), rel11=np.abs(reg.g_11.centre/g11_fd-1).max(),
              g_23_vs_zshift=np.mean(np.sign(reg.g_23.centre*dz)), relg23=np.abs(np.abs(reg.g_23.centre)/(reg.g_33.centre*np.abs(dz))-1).max())
    return out

if __name__ == "__main__":
    geometry, orth, flip = sys.argv[1], sys.argv[2]=="orth", sys.argv[3]=="flip"
    for k, v in run(geometry, orth, flip).items():
        print(geometry, "orth" if orth else "nonorth", "flip" if flip else "noflip", k, {a: (round(float(b),4)) for a,b in v.items()})
