"""
repro_1: PsiContour.refinePointNewton searches ALONG the contour tangent instead of
ACROSS the contour, so it cannot converge; 'integrate+newton' silently degrades to
plain 'integrate', which does not honour refine_atol.

Independent expectation: psi = (R-R0)^2 + (Z-Z0)^2, contour psi = 1 is the unit circle.
A point displaced radially by dr must be brought back to |psi-1| < refine_atol at the
same poloidal angle.  refinePointLinesearch (which builds the perpendicular to the same
`tangent` argument) is used as the second code path that must agree.
"""
import numpy
from hypnotoad.core.equilibrium import PsiContour, Point2D, SolutionError

R0, Z0 = 0.2, 0.3


def psi(R, Z):
    return (R - R0) ** 2 + (Z - Z0) ** 2


c = PsiContour(
    points=[Point2D(R0 + numpy.cos(t), Z0 + numpy.sin(t)) for t in numpy.linspace(0, 3, 10)],
    psival=1.0,
    settings={},  # all defaults: refine_methods=['integrate+newton','integrate']
    Rrange=(-9, 9),
    Zrange=(-9, 9),
)
atol = c.user_options.refine_atol
print("refine_atol =", atol, " default refine_methods =", c.user_options.refine_methods)

th = 1.0
tangent = Point2D(-numpy.sin(th), numpy.cos(th)) * 0.1  # exact tangent of the circle
fail = False
for dr in [1e-6, 1e-3, 0.1]:
    p = Point2D(R0 + (1 + dr) * numpy.cos(th), Z0 + (1 + dr) * numpy.sin(th))
    q_line = c.refinePoint(p, tangent, psi=psi, methods="line", width=0.5)
    print(f"dr={dr:g}: line search      -> |psi-1| = {abs(psi(*q_line) - 1):.2e}")
    try:
        q_newton = c.refinePoint(p, tangent, psi=psi, methods="newton")
        print(f"dr={dr:g}: newton           -> |psi-1| = {abs(psi(*q_newton) - 1):.2e}")
    except SolutionError as e:
        fail = True
        print(f"dr={dr:g}: newton           -> SolutionError ({e})")
    q_def = c.refinePoint(p, tangent, psi=psi)  # default method list
    err = abs(psi(*q_def) - 1)
    print(f"dr={dr:g}: default methods  -> |psi-1| = {err:.2e}", "(> refine_atol!)" if err > atol else "")
    if err > atol:
        fail = True

# Show directly what Newton iterates on: f(s) = psi(p + s*tangent) - psival
p = Point2D(R0 + (1 + 1e-3) * numpy.cos(th), Z0 + (1 + 1e-3) * numpy.sin(th))
s = numpy.linspace(-1, 1, 5)
print("f(s) along the direction used by refinePointNewton:",
      [float(psi(*(p + x * tangent)) - 1.0) for x in s], "(never crosses zero)")
print("DEFECT CONFIRMED" if fail else "no discrepancy")
