"""Pipeline-level confirmation for the C01 finding 'refinePointIntegrate returns the second integrator point':
the real PsiContour.refinePointIntegrate with the real scipy solve_ivp on an analytic psi.  Prints, for several start
points, the number of integrator steps, psi at the returned point and psi at the last integrator point.
Before the fix the returned point is off the target surface whenever the integrator needs more than one step."""
import numpy
from scipy.integrate import solve_ivp
import hypnotoad.core.equilibrium as eqm
from hypnotoad.core.equilibrium import Point2D


def psi(R, Z):
    return (R - 1.5) ** 2 + 0.5 * Z ** 2


def func(psival, position, eps=1e-10):
    R, Z = position
    psi0 = psi(R, Z)
    a = (psi(R + eps, Z) - psi0) / eps
    b = (psi(R, Z + eps) - psi0) / eps
    n = 1.0 / (a * a + b * b)
    return [a * n, b * n]


bad = 0
c = eqm.PsiContour.__new__(eqm.PsiContour)
for target, p in ((0.25, Point2D(2.001, 0.0)), (0.25, Point2D(2.05, 0.1)), (0.25, Point2D(2.3, 0.3)), (0.25, Point2D(1.7, 0.1)), (1.0, Point2D(1.6, 0.05))):
    c.psival = target
    q = c.refinePointIntegrate(p, None, psi=psi, width=0.1, atol=1e-8)
    res = solve_ivp(func, (psi(*p), target), [p.R, p.Z])
    steps = res.y.shape[1] - 1
    err = abs(psi(q.R, q.Z) - target)
    print("start psi %.4f target %.3f steps %d psi(returned) %.6f psi(last point) %.6f" % (psi(*p), target, steps, psi(q.R, q.Z), psi(*res.y[:, -1])))
    if err > 1e-2:
        bad += 1
print("returned points off the target surface by more than 1e-2:", bad)
raise SystemExit(1 if bad else 0)
