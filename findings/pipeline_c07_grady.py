"""Pipeline-level confirmation of finding C07-nonorth-grady-tanbeta-sign: on a real non-orthogonal grid compare curl_bOverB_y with
curl(b/B) . grad(y) where grad(y) is the dual basis vector obtained from the actual displacements between neighbouring grid points."""
import sys, numpy as np, warnings, io, contextlib
warnings.filterwarnings("ignore")
sys.path.insert(0, "/repo/examples/tokamak")
from tokamak_example import create_tokamak
from hypnotoad import tokamak
from hypnotoad.core.mesh import BoutMesh


def run(flip):
    r1d, z1d, psi2d, psi1d = create_tokamak(geometry="lsn", nx=65, ny=65)
    if flip:
        psi2d, psi1d = -psi2d, -psi1d
    opts = dict(orthogonal=False, nx_core=3, nx_sol=3, nx_pf=3, ny_inner_divertor=4, ny_outer_divertor=4, ny_sol=8, psinorm_core=0.9,
                psinorm_sol=1.1, psinorm_pf=0.95, number_of_processors=1, finecontour_Nfine=200, y_boundary_guards=0)
    we = 0.2
    wall = [(1 + we, -0.7 + we), (1 + we, 0.7 - we), (2 - we, 0.7 - we), (2 - we, -0.7 + we)]
    with contextlib.redirect_stdout(io.StringIO()):
        eq = tokamak.TokamakEquilibrium(r1d, z1d, psi2d, psi1d, fpol1D=3.0 + 0 * psi1d, settings=opts, wall=wall)
        mesh = BoutMesh(eq, opts)
        mesh.geometry()
    for reg in mesh.regions.values():
        R, Z = reg.Rxy, reg.Zxy
        dx, dy = reg.dx.centre, reg.dy.centre
        ex = np.stack([(R.xlow[1:, :] - R.xlow[:-1, :]) / dx, (Z.xlow[1:, :] - Z.xlow[:-1, :]) / dx])
        ey = np.stack([(R.ylow[:, 1:] - R.ylow[:, :-1]) / dy, (Z.ylow[:, 1:] - Z.ylow[:, :-1]) / dy])
        det = ex[0] * ey[1] - ex[1] * ey[0]
        grady = np.stack([-ex[1] / det, ex[0] / det])  # dual of e_y: grady.e_x = 0, grady.e_y = 1
        Rc, Zc = R.centre, Z.centre
        B2 = eq.B2(Rc, Zc)
        curlR = -eq.dBzetadZ(Rc, Zc) / B2 + eq.Bzeta(Rc, Zc) / B2 ** 2 * eq.dB2dZ(Rc, Zc)
        curlZ = eq.Bzeta(Rc, Zc) / (Rc * B2) + eq.dBzetadR(Rc, Zc) / B2 - eq.Bzeta(Rc, Zc) / B2 ** 2 * eq.dB2dR(Rc, Zc)
        ref = curlR * grady[0] + curlZ * grady[1]
        code = reg.curl_bOverB_y.centre
        BR, BZ = eq.Bp_R(Rc, Zc), eq.Bp_Z(Rc, Zc)
        t = reg.tanBeta.centre
        alt = (curlR * (BR + BZ * t) + curlZ * (BZ - BR * t)) / (reg.Bpxy.centre * reg.hy.centre)  # opposite sign of the tanBeta term
        big = np.abs(t) > 0.05
        if big.sum() == 0:
            continue
        print("flip" if flip else "noflip", reg.name, "bpsign", reg.bpsign, "cells with |tanBeta|>0.05:", int(big.sum()),
              " mean|code-ref|/|ref| = %.3f" % (np.abs(code - ref)[big].mean() / np.abs(ref)[big].mean()),
              " mean|alt-ref|/|ref| = %.3f" % (np.abs(alt - ref)[big].mean() / np.abs(ref)[big].mean()))


if __name__ == "__main__":
    run(sys.argv[1] == "flip")
