"""Pipeline-level confirmation of the C07 finding 'curl(b/B) with x-y derivatives has the wrong sign of curl_bOverB_x and curl_bOverB_y for
negative Bp': build the same small orthogonal lower-single-null grid with both curvature_type formulations, for psi decreasing outwards
(bpsign = -1, the analytic example as shipped) and for -psi (bpsign = +1), and compare the interior cell centres.
Usage: python pipeline_c07_xy_formulation.py   (about a minute per grid)"""
import sys, numpy as np, warnings, io, contextlib
warnings.filterwarnings("ignore")
sys.path.insert(0, "/repo/examples/tokamak")
from tokamak_example import create_tokamak
from hypnotoad import tokamak
from hypnotoad.core.mesh import BoutMesh


def build(flip, ctype):
    r1d, z1d, psi2d, psi1d = create_tokamak(geometry="lsn", nx=65, ny=65)
    if flip:
        psi2d, psi1d = -psi2d, -psi1d
    opts = dict(orthogonal=True, nx_core=4, nx_sol=4, nx_pf=4, ny_inner_divertor=6, ny_outer_divertor=6, ny_sol=16, psinorm_core=0.9,
                psinorm_sol=1.1, psinorm_pf=0.95, number_of_processors=1, y_boundary_guards=0, curvature_type=ctype)
    with contextlib.redirect_stdout(io.StringIO()):
        eq = tokamak.TokamakEquilibrium(r1d, z1d, psi2d, psi1d, fpol1D=3.0 + 2.0 * psi1d, settings=opts)
        mesh = BoutMesh(eq, opts)
        mesh.geometry()
    return mesh


bad = 0
for flip in (False, True):
    a = build(flip, "curl(b/B) with x-y derivatives")
    b = build(flip, "curl(b/B)")
    for comp in ("curl_bOverB_x", "curl_bOverB_y", "curl_bOverB_z"):
        num = den = dot = 0.0
        for ra, rb in zip(a.regions.values(), b.regions.values()):
            if "core" not in ra.name:
                continue
            x, y = getattr(ra, comp).centre[1:-1, 1:-1], getattr(rb, comp).centre[1:-1, 1:-1]
            num += np.abs(x - y).sum()
            den += np.abs(y).sum()
            dot += (x * y).sum()
        bps = next(iter(a.regions.values())).bpsign
        rel = num / den
        print("bpsign=%+d %s: mean|xy - RZ|/|RZ| = %.3f   correlation sign = %+d" % (bps, comp, rel, np.sign(dot)))
        if rel > 0.2:
            bad += 1
sys.exit(1 if bad else 0)
