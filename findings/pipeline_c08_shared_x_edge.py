"""Pipeline-level confirmation for the C08 finding on MeshRegion.globalXInd: a non-orthogonal lower-single-null grid with nx_core != nx_sol and
radially varying spacing ranges; prints the distance between the points of the separatrix contour as gridded by the regions on its two sides
(2-5 cm before the fix, 1e-9 after).  Usage: python findings/pipeline_c08_shared_x_edge.py"""
import sys, numpy as np, warnings
warnings.filterwarnings("ignore")
sys.path.insert(0, "/repo/examples/tokamak")
from tokamak_example import create_tokamak
from hypnotoad import tokamak
from hypnotoad.core.mesh import BoutMesh
import io, contextlib

def run(nx_core, nx_sol, extra):
    r1d, z1d, psi2d, psi1d = create_tokamak(geometry="lsn", nx=65, ny=65)
    opts = dict(orthogonal=False, nx_core=nx_core, nx_sol=nx_sol, nx_pf=nx_core, ny_inner_divertor=4, ny_outer_divertor=4, ny_sol=8,
                psinorm_core=0.9, psinorm_sol=1.1, psinorm_pf=0.95, number_of_processors=1, finecontour_Nfine=200,
                y_boundary_guards=0)
    opts.update(extra)
    fpol = 3.0 + 0*psi1d
    we=0.2
    wall=[(1+we,-0.7+we),(1+we,0.7-we),(2-we,0.7-we),(2-we,-0.7+we)]
    buf = io.StringIO()
    with contextlib.redirect_stdout(buf):
        eq = tokamak.TokamakEquilibrium(r1d, z1d, psi2d, psi1d, fpol1D=fpol, settings=opts, nonorthogonal_settings=opts, wall=wall)
        mesh = BoutMesh(eq, opts)
    worst = 0.0
    for reg in mesh.regions.values():
        o = reg.connections["outer"]
        if o is None: continue
        nb = mesh.regions[o]
        a = [(p.R, p.Z) for p in reg.contours[-1]]
        b = [(p.R, p.Z) for p in nb.contours[0]]
        d = max(np.hypot(x[0]-y[0], x[1]-y[1]) for x, y in zip(a, b))
        print(reg.name, "->", nb.name, "global_xind", reg.contours[-1].global_xind, nb.contours[0].global_xind, "max distance between shared-edge points %.3e" % d)
        worst = max(worst, d)
    return worst

if __name__ == "__main__":
    extra = dict(nonorthogonal_xpoint_poloidal_spacing_range_inner=0.05, nonorthogonal_xpoint_poloidal_spacing_range=0.3,
                 nonorthogonal_target_all_poloidal_spacing_range_inner=0.05, nonorthogonal_target_all_poloidal_spacing_range=0.3)
    print("equal sizes:"); w1 = run(3, 3, extra)
    print("unequal sizes:"); w2 = run(3, 5, extra)
    print(w1, w2)
