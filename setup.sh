#!/bin/bash
# Build the overlay venv used by every check: /venv's packages (numpy, scipy, hypnotoad editable -> /repo)
# plus z3-solver and crosshair-tool from the offline wheelhouse.  Idempotent.
set -e
cd "$(dirname "$0")"
V=/verif/.venv
if [ -x "$V/bin/python" ] && "$V/bin/python" -c "import z3, numpy, hypnotoad" 2>/dev/null; then
  exit 0
fi
rm -rf "$V"
/venv/bin/python -m venv "$V"
SP=$("$V/bin/python" -c "import sysconfig; print(sysconfig.get_paths()['purelib'])")
echo "import site; site.addsitedir('/venv/lib/python3.12/site-packages')" > "$SP/_overlay.pth"
PIP_NO_INDEX=1 "$V/bin/pip" install -q --no-index --find-links /opt/veriftools/wheels z3-solver crosshair-tool >/dev/null 2>&1 || \
PIP_NO_INDEX=1 "$V/bin/pip" install -q --no-index --find-links /opt/veriftools/wheels z3-solver
"$V/bin/python" -c "import z3, numpy, scipy, hypnotoad; print('verif venv ok: z3', z3.get_version_string())"
