"""Obligation registry, parallel runner, counterexample replay, known findings, evidence."""
import argparse
import hashlib
import importlib
import inspect
import json
import multiprocessing
import os
import re
import shutil
import sys
import tempfile
import time
import traceback

VERIF = os.path.dirname(os.path.dirname(os.path.abspath(__file__)))
sys.path.insert(0, VERIF)

from symx import core  # noqa: E402


class Ob:
    def __init__(self, name, fn, tier="quick", family="", desc="", encodes=(), stubs=(), bounds="", replay=None,
                 timeout_ms=None, max_paths=None, wall_s=None, expect_exception_paths=False, final_timeout_ms=None,
                 partial_ok=False):
        self.name = name
        self.fn = fn
        self.tier = tier
        self.family = family
        self.desc = desc
        self.encodes = list(encodes)
        self.stubs = list(stubs)
        self.bounds = bounds
        self.replay = replay
        self.timeout_ms = timeout_ms
        self.final_timeout_ms = final_timeout_ms
        self.max_paths = max_paths
        self.wall_s = wall_s
        self.partial_ok = partial_ok
        self.expect_exception_paths = expect_exception_paths


def registry():
    obs = []

    def obligation(name, **kw):
        def deco(fn):
            obs.append(Ob(name, fn, **kw))
            return fn

        return deco

    return obs, obligation


# ---------------------------------------------------------------------------------------------
def describe_encoded(spec):
    """spec 'module:qualname' -> file, line span, sha1 of the current source text"""
    try:
        modname, qual = spec.split(":")
        mod = importlib.import_module(modname)
        obj = mod
        for part in qual.split("."):
            obj = getattr(obj, part)
        obj = inspect.unwrap(obj)
        if isinstance(obj, (staticmethod, classmethod)):
            obj = obj.__func__
        src, line = inspect.getsourcelines(obj)
        text = "".join(src)
        return {"function": spec, "file": inspect.getsourcefile(obj), "lines": [line, line + len(src) - 1],
                "sha1": hashlib.sha1(text.encode()).hexdigest()[:12]}
    except Exception as e:  # noqa
        return {"function": spec, "error": repr(e)}


def _jsonable(x):
    try:
        json.dumps(x)
        return x
    except Exception:
        return repr(x)[:300]


def run_obligation_sym(ob, tier):
    tmo = ob.timeout_ms or (10000 if tier == "quick" else 60000)
    ftmo = ob.final_timeout_ms or (30000 if tier == "quick" else 120000)
    env = core.new_env(mode="sym", timeout_ms=tmo, final_timeout_ms=ftmo, max_paths=ob.max_paths or 4000)
    env.tier = tier
    t0 = time.time()
    outcomes = env.explore(ob.fn)
    res = {
        "obligation": ob.name, "family": ob.family, "desc": ob.desc,
        "stats": dict(env.stats), "wall_s": round(time.time() - t0, 3),
        "claims": {k: c.as_dict() for k, c in env.claims.items()},
        "events": env.events[:20], "ufs": sorted(env.ufs_used), "notes": env.notes[:20],
        "path_log": env.path_log[:12],
        "exceptions": [repr(o[1])[:200] for o in outcomes if o[0] == "exc"][:6],
        "tag_counts": _tag_counts(env.path_log),
    }
    return res


def _tag_counts(path_log):
    d = {}
    for p in path_log:
        for t in p["tags"]:
            d[t] = d.get(t, 0) + 1
    return d


def replay_conc(ob, claim_name, values, tier="quick"):
    """re-run the obligation body with plain floats/ints taken from the model; returns (reproduced, info)"""
    if ob.replay is not None:
        try:
            ok, info = ob.replay(claim_name, values)
            return ok, _jsonable(info)
        except Exception as e:  # noqa
            return False, {"replay_error": repr(e), "trace": traceback.format_exc()[-800:]}
    env = core.new_env(mode="conc", values=values)
    env.tier = tier
    outcomes = env.explore(ob.fn)
    c = env.claims.get(claim_name)
    info = {"outcome": outcomes[0][0], "detail": repr(outcomes[0][1])[:300],
            "claims_conc": {k: v.conc for k, v in env.claims.items()}}
    if outcomes[0][0] == "exc":
        info["trace"] = "".join(traceback.format_exception(outcomes[0][1]))[-1500:]
    if c is None or c.conc is None:
        return False, info
    return (c.conc is False), info


def _worker(modname, obname, tier, outpath):
    import contextlib
    import io
    with contextlib.redirect_stdout(io.StringIO()):
        _worker_inner(modname, obname, tier, outpath)


def _worker_inner(modname, obname, tier, outpath):
    try:
        mod = importlib.import_module(modname)
        ob = [o for o in mod.OBLIGATIONS if o.name == obname][0]
        res = run_obligation_sym(ob, tier)
        # replay violated claims
        for cname, c in res["claims"].items():
            c["replays"] = []
            if c["violated"] and not cname.startswith("witness:"):
                for m in c["models"]:
                    ok, info = replay_conc(ob, cname, m["values"], tier)
                    c["replays"].append({"reproduced": bool(ok), "info": info})
                    if ok:
                        break
            need_search = (c["violated"] and not any(x["reproduced"] for x in c["replays"])) or (c["unknown"] and not c["violated"])
            if need_search and c.get("domains"):
                # The solver's model may rely on its own interpretation of an uninterpreted function or sit on a degenerate point, or the
                # solver may have answered 'unknown'.  Look for a confirming concrete input: a violation is only ever reported with an input
                # that fails on the real code; 'held' verdicts never come from this search.
                import random
                rng = random.Random(int(os.environ.get("VERIF_SEED", "0") or 0) + 17)
                base = c["models"][0] if c["models"] else {"values": {}, "prefix": [], "tags": []}

                def sample(n, lo, hi, pos, neg):
                    if lo is not None and hi is not None:
                        return rng.uniform(lo + 0.05 * (hi - lo), hi - 0.05 * (hi - lo))
                    if pos or (lo is not None and lo >= 0):
                        return (lo or 0.0) + rng.uniform(0.02, 3.0)
                    if neg or (hi is not None and hi <= 0):
                        return (hi or 0.0) - rng.uniform(0.02, 3.0)
                    return rng.uniform(-3.0, 3.0)

                def is_real_input(n):
                    return not (isinstance(base["values"].get(n), (bool, int, str)) and not isinstance(base["values"].get(n), float))

                def candidates():
                    names = [n for n in c["domains"] if is_real_input(n)]
                    # (1) the solver model with ONE input re-sampled (the model is usually right except for the point at which an
                    #     uninterpreted function was given a value no real function takes)
                    if base["values"]:
                        for n in names:
                            for _k in range(10):
                                vals = dict(base["values"])
                                vals[n] = sample(n, *c["domains"][n])
                                yield vals
                    # (2) everything re-sampled
                    for _try in range(24):
                        vals = dict(base["values"])
                        for n in names:
                            vals[n] = sample(n, *c["domains"][n])
                        yield vals

                t_search = time.time()
                for vals in candidates():
                    if time.time() - t_search > 45:
                        break
                    ok, info = replay_conc(ob, cname, vals, tier)
                    if ok:
                        c["models"].append({"values": vals, "prefix": base["prefix"], "tags": base["tags"], "found_by": "concrete search after an undecided/unreplayable solver answer"})
                        while len(c["replays"]) < len(c["models"]) - 1:
                            c["replays"].append({"reproduced": False, "info": "not tried"})
                        c["replays"].append({"reproduced": True, "info": info})
                        c["violated"] = max(c["violated"], 1)
                        break
        res["status"] = "done"
    except core.HarnessError as e:
        res = {"obligation": obname, "status": "harness_error", "error": repr(e), "trace": traceback.format_exc()[-2000:]}
    except BaseException as e:  # noqa
        res = {"obligation": obname, "status": "harness_error", "error": repr(e), "trace": traceback.format_exc()[-2000:]}
    with open(outpath, "w") as f:
        json.dump(res, f, default=lambda o: repr(o)[:200])


def _worker_conc_search(modname, obname, tier, outpath, seed):
    """fallback after a timed-out symbolic exploration: run the obligation body concretely on random admissible inputs; only a
    concretely failing claim is ever reported (as a violation with its input); nothing is ever reported as held from here"""
    import contextlib
    import io
    found = {}
    tried = 0
    try:
        with contextlib.redirect_stdout(io.StringIO()):
            mod = importlib.import_module(modname)
            ob = [o for o in mod.OBLIGATIONS if o.name == obname][0]
            t0 = time.time()
            k = 0
            while time.time() - t0 < 90 and k < 200 and len(found) < 3:
                k += 1
                vals = {"__random__": seed * 1000 + k}
                env = core.new_env(mode="conc", values=vals)
                env.tier = tier
                env.explore(ob.fn)
                tried += 1
                for cname, c in env.claims.items():
                    if c.conc is False and not cname.startswith("witness:") and cname not in found:
                        found[cname] = {k2: v for k2, v in vals.items() if not k2.startswith("__")}
    except BaseException as e:  # noqa
        pass
    with open(outpath, "w") as f:
        json.dump({"found": found, "tried": tried}, f, default=lambda o: repr(o)[:100])


def load_known():
    p = os.path.join(VERIF, "known_findings.json")
    if not os.path.exists(p):
        return []
    return json.load(open(p))["findings"]


def match_known(known, pid, obname, cname):
    for k in known:
        if k.get("status") != "known" or k["property"] != pid:
            continue
        if re.fullmatch(k["obligation"], obname) and re.fullmatch(k["claim"], cname):
            return k
    return None


def run_property(pid, tier, seed, only=None, jobs=None, verbose=False):
    t0 = time.time()
    modname = "harness." + pid.lower()
    mod = importlib.import_module(modname)
    obs = [o for o in mod.OBLIGATIONS if tier == "thorough" or o.tier == "quick"]
    if only:
        obs = [o for o in obs if re.search(only, o.name)]
    jobs = jobs or min(16, os.cpu_count() or 4)
    tmp = tempfile.mkdtemp(prefix="verif_%s_" % pid)
    pending = list(obs)
    running = []
    results = {}
    try:
        while pending or running:
            while pending and len(running) < jobs:
                ob = pending.pop(0)
                out = os.path.join(tmp, ob.name + ".json")
                p = multiprocessing.Process(target=_worker, args=(modname, ob.name, tier, out))
                p.start()
                running.append((ob, p, out, time.time()))
            time.sleep(0.05)
            still = []
            for ob, p, out, ts in running:
                limit = ob.wall_s or (600 if tier == "quick" else 1500)
                if not p.is_alive():
                    p.join()
                    if os.path.exists(out):
                        results[ob.name] = json.load(open(out))
                    else:
                        results[ob.name] = {"obligation": ob.name, "status": "harness_error", "error": "worker died rc=%s" % p.exitcode}
                elif time.time() - ts > limit:
                    p.terminate()
                    p.join(5)
                    if p.is_alive():
                        p.kill()
                    results[ob.name] = {"obligation": ob.name, "status": "timeout", "error": "wall limit %ss" % limit}
                else:
                    still.append((ob, p, out, ts))
            running = still
        # fallback for obligations whose symbolic exploration hit the wall limit: concrete search for a failing input
        for ob in obs:
            r = results.get(ob.name, {})
            if r.get("status") == "timeout":
                out = os.path.join(tmp, ob.name + ".conc.json")
                p = multiprocessing.Process(target=_worker_conc_search, args=(modname, ob.name, tier, out, int(seed)))
                p.start()
                p.join(150)
                if p.is_alive():
                    p.terminate()
                    p.join(5)
                if os.path.exists(out):
                    cs = json.load(open(out))
                    r["concrete_search"] = {"inputs_tried": cs.get("tried"), "failing_claims": list(cs.get("found", {}))}
                    if cs.get("found"):
                        r["status"] = "done"
                        r["stats"] = dict(paths=0, aborted=0, queries=0, sat=0, unsat=0, unknown=0, solver_s=0.0, exceptions=0, budget_exhausted=True)
                        r["wall_s"] = ob.wall_s or 0
                        r["claims"] = {cn: {"name": cn, "paths": 0, "held": 0, "violated": 1, "unknown": 0, "trivial": 0, "solver_s": 0.0,
                                            "models": [{"values": v, "prefix": [], "tags": ["found by concrete search after the symbolic exploration timed out"]}],
                                            "replays": [{"reproduced": True, "info": "claim failed on this concrete input (real code, plain floats)"}]}
                                       for cn, v in cs["found"].items()}
                        r["notes"] = ["symbolic exploration hit the wall limit; violation established by concrete execution of the real code"]
    finally:
        shutil.rmtree(tmp, ignore_errors=True)

    known = load_known()
    os.makedirs(os.path.join(VERIF, "replays"), exist_ok=True)
    violations = []
    known_hits = []
    inconclusive = []
    n_claims = n_held = 0
    total_queries = 0
    solver_s = 0.0
    paths = 0
    nontrivial = set()
    samples = []
    ob_summ = []
    for ob in obs:
        r = results[ob.name]
        summ = {"obligation": ob.name, "family": ob.family, "desc": ob.desc, "bounds": ob.bounds, "stubs": ob.stubs}
        if r.get("status") != "done":
            inconclusive.append("%s: %s %s" % (ob.name, r.get("status"), r.get("error", "")))
            summ["verdict"] = r.get("status")
            summ["error"] = r.get("error")
            if verbose and r.get("trace"):
                print(r["trace"])
            ob_summ.append(summ)
            continue
        st = r["stats"]
        total_queries += st["queries"]
        solver_s += st["solver_s"]
        paths += st["paths"]
        if st.get("budget_exhausted") and not ob.partial_ok:
            inconclusive.append("%s: path budget exhausted" % ob.name)
        if st.get("exceptions") and not ob.expect_exception_paths:
            # an exception that escapes the obligation body (raised by the code under test where the harness does not expect a refusal, or by the
            # harness itself on a tree it was not written for) ends the path before its remaining claims: nothing may be concluded from it
            inconclusive.append("%s: %d path(s) ended in an uncaught exception: %s" % (ob.name, st["exceptions"], "; ".join((r.get("exceptions") or [])[:2])))
        if not r["claims"]:
            inconclusive.append("%s: no claim reached (vacuous)" % ob.name)
        verdicts = {}
        for cname, c in r["claims"].items():
            n_claims += 1
            is_witness = cname.startswith("witness:")
            if is_witness:
                # reachability twin: the claim `False` must be violated (i.e. the point is reachable) on >= 1 path
                if c["violated"] == 0:
                    inconclusive.append("%s/%s: reachability witness not satisfiable (vacuous harness)" % (ob.name, cname))
                    verdicts[cname] = "vacuous"
                else:
                    verdicts[cname] = "reachable(%d paths)" % c["violated"]
                    n_held += 1
                continue
            if c["held"] - c["trivial"] > 0:
                nontrivial.add(ob.name + "/" + cname)
            if c["violated"]:
                rep = [x for x in c.get("replays", []) if x["reproduced"]]
                if rep:
                    model = c["models"][len(c["replays"]) - 1]
                    k = match_known(known, pid, ob.name, cname)
                    rec = {"property": pid, "obligation": ob.name, "claim": cname, "values": model["values"],
                           "tags": model.get("tags"), "observed": rep[0]["info"], "tier": tier,
                           "encodes": [describe_encoded(s) for s in ob.encodes]}
                    h = hashlib.sha1(json.dumps([ob.name, cname, model["values"]], sort_keys=True, default=str).encode()).hexdigest()[:10]
                    path = os.path.join(VERIF, "replays", "%s-%s-%s.json" % (pid, ob.name, h))
                    with open(path, "w") as f:
                        json.dump(rec, f, indent=1, default=str)
                    if k:
                        known_hits.append((k, path))
                        verdicts[cname] = "known-finding"
                    else:
                        violations.append((ob.name, cname, path))
                        verdicts[cname] = "VIOLATED"
                else:
                    inconclusive.append("%s/%s: solver counterexample did not reproduce on the real code (encoding or stub wrong?) %s" % (
                        ob.name, cname, json.dumps(c["models"][:1], default=str)[:400]))
                    verdicts[cname] = "unreproduced-cex"
                    if verbose:
                        print(json.dumps(c.get("replays"), indent=1, default=str)[:3000])
            elif c["unknown"]:
                inconclusive.append("%s/%s: solver returned unknown on %d path(s)" % (ob.name, cname, c["unknown"]))
                verdicts[cname] = "unknown"
            else:
                n_held += 1
                verdicts[cname] = "held(%d paths)" % c["paths"]
        summ.update({"verdicts": verdicts, "paths": st["paths"], "aborted_paths": st["aborted"], "queries": st["queries"],
                     "sat": st["sat"], "unsat": st["unsat"], "unknown": st["unknown"], "solver_s": round(st["solver_s"], 3),
                     "wall_s": r["wall_s"], "exception_paths": st["exceptions"], "exceptions": r.get("exceptions"),
                     "events": r.get("events"), "uninterpreted": r.get("ufs"), "tag_counts": r.get("tag_counts"),
                     "notes": r.get("notes")})
        if len(samples) < 12 and r.get("path_log"):
            samples.append({"obligation": ob.name, "first_paths": r["path_log"][:3],
                            "claims": {k: v for k, v in list(verdicts.items())[:6]}})
        ob_summ.append(summ)

    # ---- report
    seen_known = set()
    for k, path in known_hits:
        if k["id"] in seen_known:
            continue
        seen_known.add(k["id"])
        print("KNOWN-FINDING: property=%s %s [%s] (replay=%s)" % (pid, k["what"], k["id"], path))
    for obn, cn, path in violations:
        print("VIOLATION property=%s replay=%s" % (pid, path))
        print("  obligation=%s claim=%s" % (obn, cn))
    for msg in inconclusive:
        print("INCONCLUSIVE property=%s %s" % (pid, msg))

    encoded = []
    seen = set()
    for ob in obs:
        for s in ob.encodes:
            if s not in seen:
                seen.add(s)
                encoded.append(describe_encoded(s))
    meta = getattr(mod, "META", {})
    evidence = {
        "property_id": pid, "tier": tier, "seed": int(seed), "level": "other",
        "coverage": {
            "explanation": meta.get("explanation", "") + " Deciding step: z3 (Python API, %s) answers, per explored path of the "
            "real hypnotoad code executed on symbolic values, whether the negated claim is satisfiable; unsat on every path = "
            "held for all values in the stated bounds; sat = counterexample replayed with plain floats on the same code." % core.z3.get_version_string(),
            "evaluations": int(total_queries), "distinct_nontrivial": len(nontrivial),
            "rule": "evaluations = solver queries issued (branch feasibility + final obligations); distinct_nontrivial = distinct "
                    "(obligation, claim) pairs that needed at least one solver query returning unsat (claims simplified to true by z3's "
                    "rewriter are not counted).",
            "obligations": n_claims, "discharged": n_held, "paths": paths, "solver_s": round(solver_s, 3),
            "functions_encoded": encoded, "bounds": meta.get("bounds", ""), "out_of_scope": meta.get("out", ""),
            "obligation_results": ob_summ, "samples": samples or [{"note": "no paths"}],
            "known_findings_hit": [k["id"] for k, _ in known_hits],
            "inconclusive": inconclusive, "exhaustive": False,
        },
        "assumptions": meta.get("assumptions", []),
        "wall_s": round(time.time() - t0, 2), "violations": len(violations),
    }
    evdir = os.environ.get("VERIF_EVIDENCE_DIR") or os.path.join(VERIF, "evidence")  # (override: used when trying seeded changes)
    os.makedirs(evdir, exist_ok=True)
    with open(os.path.join(evdir, pid + ".json"), "w") as f:
        json.dump(evidence, f, indent=1, default=str)
    print("%s tier=%s obligations=%d claims=%d held=%d violations=%d known=%d inconclusive=%d paths=%d queries=%d solver=%.1fs wall=%.1fs" % (
        pid, tier, len(obs), n_claims, n_held, len(violations), len(known_hits), len(inconclusive), paths, total_queries, solver_s, time.time() - t0))
    if violations:
        return 1
    if inconclusive:
        return 2
    return 0


def do_replay(pid, path):
    rec = json.load(open(path))
    mod = importlib.import_module("harness." + pid.lower())
    ob = [o for o in mod.OBLIGATIONS if o.name == rec["obligation"]][0]
    ok, info = replay_conc(ob, rec["claim"], rec["values"], rec.get("tier", "quick"))
    print(json.dumps({"reproduced": ok, "info": info}, indent=1, default=str))
    if ok:
        print("VIOLATION property=%s replay=%s" % (pid, path))
        return 1
    return 0


def main():
    ap = argparse.ArgumentParser()
    ap.add_argument("pid")
    ap.add_argument("--tier", default=os.environ.get("VERIF_TIER", "quick"))
    ap.add_argument("--replay")
    ap.add_argument("--only")
    ap.add_argument("--jobs", type=int)
    ap.add_argument("-v", action="store_true")
    a = ap.parse_args()
    seed = int(os.environ.get("VERIF_SEED", "0") or 0)
    if a.replay:
        sys.exit(do_replay(a.pid, a.replay))
    sys.exit(run_property(a.pid, a.tier, seed, only=a.only, jobs=a.jobs, verbose=a.v))


if __name__ == "__main__":
    main()
