"""Forward-mode automatic differentiation over symbolic (or plain float) values.
Jet1: value, first and second derivative w.r.t. one variable.
Jet2: value and first/second partial derivatives w.r.t. two variables (R, Z).
Running the *real* function on a jet yields the exact derivative of the expression the code computes."""
import math

import numpy

from . import core


def _fn(x, name):
    """apply sin/cos/exp/erf/log/sqrt to a plain or symbolic scalar"""
    if isinstance(x, (int, float, numpy.floating, numpy.integer)):
        if name == "erf":
            return math.erf(x)
        return getattr(math, name)(x)
    if name == "erf":
        return x._uf("erf")
    return getattr(x, name)()


from fractions import Fraction  # noqa: E402

# exact reciprocal of the rational the engine lifts the double sqrt(pi) to, so that sqrt(pi)/2 * 2/sqrt(pi) == 1 exactly
TWO_OVER_SQRT_PI = Fraction(2) / core.frac_of_float(float(numpy.sqrt(numpy.pi)))


class Jet1:
    __slots__ = ("v", "d", "dd")

    def __init__(self, v, d=0, dd=0):
        self.v, self.d, self.dd = v, d, dd

    @staticmethod
    def lift(x):
        return x if isinstance(x, Jet1) else Jet1(x, 0, 0)

    def __add__(s, o):
        o = Jet1.lift(o)
        return Jet1(s.v + o.v, s.d + o.d, s.dd + o.dd)

    __radd__ = __add__

    def __sub__(s, o):
        o = Jet1.lift(o)
        return Jet1(s.v - o.v, s.d - o.d, s.dd - o.dd)

    def __rsub__(s, o):
        return Jet1.lift(o) - s

    def __neg__(s):
        return Jet1(-s.v, -s.d, -s.dd)

    def __pos__(s):
        return s

    def __mul__(s, o):
        o = Jet1.lift(o)
        return Jet1(s.v * o.v, s.d * o.v + s.v * o.d, s.dd * o.v + 2 * s.d * o.d + s.v * o.dd)

    __rmul__ = __mul__

    def recip(s):
        r = 1 / s.v
        return Jet1(r, -s.d * r * r, -s.dd * r * r + 2 * s.d * s.d * r * r * r)

    def __truediv__(s, o):
        if not isinstance(o, Jet1):
            return Jet1(s.v / o, s.d / o, s.dd / o)
        return s * o.recip()

    def __rtruediv__(s, o):
        return Jet1.lift(o) * s.recip()

    def __pow__(s, p):
        if isinstance(p, Jet1):
            raise core.HarnessError("jet exponent")
        if float(p) == int(p) and int(p) >= 0:
            r = Jet1(1, 0, 0)
            for _ in range(int(p)):
                r = r * s
            return r
        if float(p) == int(p):
            return (s ** (-int(p))).recip()
        if float(p) == 0.5:
            return s.sqrt()
        if float(p) == 1.5:
            return s * s.sqrt()
        raise core.HarnessError("jet pow %r" % p)

    def _chain(s, f, f1, f2):
        """f(u): value f, first derivative f1, second derivative f2 (all evaluated at u = s.v)"""
        return Jet1(f, f1 * s.d, f2 * s.d * s.d + f1 * s.dd)

    def sin(s):
        sn, cs = _fn(s.v, "sin"), _fn(s.v, "cos")
        return s._chain(sn, cs, -sn)

    def cos(s):
        sn, cs = _fn(s.v, "sin"), _fn(s.v, "cos")
        return s._chain(cs, -sn, -cs)

    def exp(s):
        e = _fn(s.v, "exp")
        return s._chain(e, e, e)

    def log(s):
        return s._chain(_fn(s.v, "log"), 1 / s.v, -1 / (s.v * s.v))

    def sqrt(s):
        r = _fn(s.v, "sqrt")
        return s._chain(r, 1 / (2 * r), -1 / (4 * r * s.v))

    def erf(s):
        g = TWO_OVER_SQRT_PI * _fn(-(s.v * s.v), "exp")
        return s._chain(_fn(s.v, "erf"), g, -2 * s.v * g)

    def __abs__(s):
        raise core.HarnessError("abs of jet")

    def __lt__(s, o):
        return s.v < Jet1.lift(o).v

    def __le__(s, o):
        return s.v <= Jet1.lift(o).v

    def __gt__(s, o):
        return s.v > Jet1.lift(o).v

    def __ge__(s, o):
        return s.v >= Jet1.lift(o).v

    __hash__ = None

    def __repr__(s):
        return "Jet1(%r, %r, %r)" % (s.v, s.d, s.dd)


class Jet2:
    """value + gradient + Hessian w.r.t. (R, Z): fields v, dR, dZ, dRR, dRZ, dZZ"""
    __slots__ = ("v", "dR", "dZ", "dRR", "dRZ", "dZZ")

    def __init__(self, v, dR=0, dZ=0, dRR=0, dRZ=0, dZZ=0):
        self.v, self.dR, self.dZ, self.dRR, self.dRZ, self.dZZ = v, dR, dZ, dRR, dRZ, dZZ

    @staticmethod
    def lift(x):
        return x if isinstance(x, Jet2) else Jet2(x)

    def __add__(s, o):
        o = Jet2.lift(o)
        return Jet2(s.v + o.v, s.dR + o.dR, s.dZ + o.dZ, s.dRR + o.dRR, s.dRZ + o.dRZ, s.dZZ + o.dZZ)

    __radd__ = __add__

    def __neg__(s):
        return Jet2(-s.v, -s.dR, -s.dZ, -s.dRR, -s.dRZ, -s.dZZ)

    def __pos__(s):
        return s

    def __sub__(s, o):
        return s + (-Jet2.lift(o))

    def __rsub__(s, o):
        return Jet2.lift(o) + (-s)

    def __mul__(s, o):
        o = Jet2.lift(o)
        return Jet2(s.v * o.v, s.dR * o.v + s.v * o.dR, s.dZ * o.v + s.v * o.dZ,
                    s.dRR * o.v + 2 * s.dR * o.dR + s.v * o.dRR,
                    s.dRZ * o.v + s.dR * o.dZ + s.dZ * o.dR + s.v * o.dRZ,
                    s.dZZ * o.v + 2 * s.dZ * o.dZ + s.v * o.dZZ)

    __rmul__ = __mul__

    def _chain(s, f, f1, f2):
        return Jet2(f, f1 * s.dR, f1 * s.dZ, f2 * s.dR * s.dR + f1 * s.dRR, f2 * s.dR * s.dZ + f1 * s.dRZ, f2 * s.dZ * s.dZ + f1 * s.dZZ)

    def recip(s):
        r = 1 / s.v
        return s._chain(r, -r * r, 2 * r * r * r)

    def __truediv__(s, o):
        if not isinstance(o, Jet2):
            return s * (1 / o)
        return s * o.recip()

    def __rtruediv__(s, o):
        return Jet2.lift(o) * s.recip()

    def __pow__(s, p):
        if float(p) == int(p) and int(p) >= 0:
            r = Jet2(1)
            for _ in range(int(p)):
                r = r * s
            return r
        if float(p) == int(p):
            return (s ** (-int(p))).recip()
        if float(p) == 0.5:
            return s.sqrt()
        if float(p) == 1.5:
            return s * s.sqrt()
        raise core.HarnessError("jet pow %r" % p)

    def sqrt(s):
        r = _fn(s.v, "sqrt")
        return s._chain(r, 1 / (2 * r), -1 / (4 * r * s.v))

    def sin(s):
        sn, cs = _fn(s.v, "sin"), _fn(s.v, "cos")
        return s._chain(sn, cs, -sn)

    def cos(s):
        sn, cs = _fn(s.v, "sin"), _fn(s.v, "cos")
        return s._chain(cs, -sn, -cs)

    def exp(s):
        e = _fn(s.v, "exp")
        return s._chain(e, e, e)

    def log(s):
        return s._chain(_fn(s.v, "log"), 1 / s.v, -1 / (s.v * s.v))

    def __repr__(s):
        return "Jet2(%r; %r, %r)" % (s.v, s.dR, s.dZ)


import numbers  # noqa: E402

numbers.Number.register(Jet1)
numbers.Number.register(Jet2)
