"""Rational-function normal form for z3 real terms.

z3's nonlinear solver handles nested divisions poorly (each `/` becomes an auxiliary variable).  Before a
constraint reaches the solver, every real-arithmetic atom  lhs ~ rhs  that contains a division is rewritten
to an equivalent *polynomial* atom by putting  lhs - rhs  into the form P/Q (exact arithmetic over Fractions,
sparse multivariate polynomials; non-arithmetic sub-terms such as If(...), uninterpreted function
applications and ToReal(int) are opaque atoms) and using  sign(P/Q) = sign(P*Q)  where all divisors are non-zero.
The divisors met on the way are returned so that the caller can discharge (or assume and report) `divisor != 0`.
If P is identically zero the atom is decided by the normal form alone.
"""
from fractions import Fraction

import z3


class TooBig(Exception):
    pass


MAX_TERMS = 60000


class Poly:
    """sparse multivariate polynomial: {monomial: Fraction}, monomial = tuple of (atom_key, exponent) sorted"""
    __slots__ = ("t",)

    def __init__(self, t=None):
        self.t = t or {}

    @staticmethod
    def const(c):
        c = Fraction(c)
        return Poly({(): c} if c else {})

    @staticmethod
    def var(k):
        return Poly({((k, 1),): Fraction(1)})

    def is_zero(self):
        return not self.t

    def is_const(self):
        return all(m == () for m in self.t)

    def const_value(self):
        return self.t.get((), Fraction(0))

    def __add__(self, o):
        r = dict(self.t)
        for m, c in o.t.items():
            v = r.get(m, 0) + c
            if v:
                r[m] = v
            else:
                r.pop(m, None)
        return Poly(r)

    def __neg__(self):
        return Poly({m: -c for m, c in self.t.items()})

    def __sub__(self, o):
        return self + (-o)

    def __mul__(self, o):
        if len(self.t) * len(o.t) > 4 * MAX_TERMS:
            raise TooBig()
        r = {}
        for m1, c1 in self.t.items():
            for m2, c2 in o.t.items():
                m = _mulmono(m1, m2)
                v = r.get(m, 0) + c1 * c2
                if v:
                    r[m] = v
                else:
                    r.pop(m, None)
        if len(r) > MAX_TERMS:
            raise TooBig()
        return Poly(r)

    def key(self):
        """canonical key up to a non-zero constant factor"""
        if not self.t:
            return ()
        items = sorted(self.t.items())
        lead = items[0][1]
        return tuple((m, c / lead) for m, c in items)

    def atoms(self):
        s = set()
        for m in self.t:
            for k, _ in m:
                s.add(k)
        return s


def _mulmono(m1, m2):
    if not m1:
        return m2
    if not m2:
        return m1
    d = dict(m1)
    for k, e in m2:
        d[k] = d.get(k, 0) + e
    return tuple(sorted(d.items()))


def _mono_gcd(P):
    g = None
    for m in P.t:
        d = dict(m)
        if g is None:
            g = d
        else:
            g = {k: min(e, d[k]) for k, e in g.items() if k in d}
        if not g:
            return {}
    return g or {}


def _cancel(P, Q):
    """cancel the common monomial factor of numerator and denominator (all divisors are proved/assumed non-zero)"""
    if P.is_zero() or Q.is_const() or len(Q.t) > 2000 or len(P.t) > 20000:
        return P, Q
    gq = _mono_gcd(Q)
    if not gq:
        return P, Q
    gp = _mono_gcd(P)
    g = {k: min(e, gp[k]) for k, e in gq.items() if k in gp}
    if not g:
        return P, Q

    def div(X):
        out = {}
        for m, c in X.t.items():
            d = dict(m)
            for k, e in g.items():
                d[k] -= e
                if d[k] == 0:
                    del d[k]
            out[tuple(sorted(d.items()))] = c
        return Poly(out)

    return div(P), div(Q)


class Den:
    """factored denominator: {key: [normalised Poly, exponent]}; constants live in the numerator"""
    __slots__ = ("f",)

    def __init__(self, f=None):
        self.f = f or {}

    def copy(self):
        return Den({k: [v[0], v[1]] for k, v in self.f.items()})

    def is_one(self):
        return not self.f

    def poly(self):
        r = Poly.const(1)
        for pf, e in self.f.values():
            for _ in range(e):
                r = r * pf
        return r

    def odd_poly(self):
        """product of the factors with odd exponent (same sign as the whole denominator)"""
        r = Poly.const(1)
        for pf, e in self.f.values():
            if e % 2:
                r = r * pf
        return r

    def add_factor(self, pf, e=1):
        k = pf.key()
        if k in self.f:
            self.f[k][1] += e
        else:
            self.f[k] = [pf, e]


def _normalise(P):
    """P = lead * Phat with Phat's first coefficient 1; returns (lead, Phat)"""
    items = sorted(P.t.items())
    lead = items[0][1]
    return lead, Poly({m: c / lead for m, c in P.t.items()})


def _split_factors(P):
    """non-zero polynomial -> (constant, [(normalised factor poly, exponent)]) using the common monomial and the cofactor"""
    g = _mono_gcd(P)
    facs = []
    if g:
        out = {}
        for m, c in P.t.items():
            d = dict(m)
            for k, e in g.items():
                d[k] -= e
                if d[k] == 0:
                    del d[k]
            out[tuple(sorted(d.items()))] = c
        P = Poly(out)
        for k, e in g.items():
            facs.append((Poly.var(k), e))
    if P.is_const():
        return P.const_value(), facs
    lead, Ph = _normalise(P)
    facs.append((Ph, 1))
    return lead, facs


class Normalizer:
    def __init__(self, defs=None):
        self.defs = defs  # id of abstract quotient variable -> (var, numerator term, denominator term); expanded when given
        self.atoms = {}  # key -> z3 term
        self.sqrt_sq = None  # id of sqrt auxiliary variable y -> z3 term x with y*y == x on the path
        self.memo = {}
        self.divisors = {}  # poly key -> Poly (numerator polynomial of each divisor met)

    def atom(self, term):
        k = term.get_id()
        self.atoms[k] = term
        return Poly.var(k)

    def rf(self, e):
        """z3 real term -> (P, Q) with Q the expanded denominator"""
        P, D = self.rff(e)
        return P, D.poly()

    def rff(self, e):
        """z3 real term -> (P, Den)"""
        i = e.get_id()
        r = self.memo.get(i)
        if r is None:
            r = (e, self._rf(e))  # keep e alive: ids of dead terms are reused by z3
            self.memo[i] = r
        return r[1]

    # ---- arithmetic on (P, Den)
    @staticmethod
    def _cancel_mono(P, D):
        """cancel atom factors of D against the common monomial of P"""
        if P.is_zero() or D.is_one():
            return P, D
        g = _mono_gcd(P)
        if not g:
            return P, D
        todo = {}
        for k, e in g.items():
            key = Poly.var(k).key()
            if key in D.f:
                todo[k] = min(e, D.f[key][1])
        if not todo:
            return P, D
        D = D.copy()
        out = {}
        for m, c in P.t.items():
            d = dict(m)
            for k, e in todo.items():
                d[k] -= e
                if d[k] == 0:
                    del d[k]
            out[tuple(sorted(d.items()))] = c
        for k, e in todo.items():
            key = Poly.var(k).key()
            D.f[key][1] -= e
            if D.f[key][1] == 0:
                del D.f[key]
        return Poly(out), D

    def _mul(self, P1, D1, P2, D2):
        # cancel whole-polynomial factors: P2 against D1, P1 against D2
        D1, D2 = D1.copy(), D2.copy()
        for (Pa, Db) in ((P2, D1), (P1, D2)):
            pass
        scale = Fraction(1)
        if not P2.is_zero() and not P2.is_const():
            lead, Ph = _normalise(P2)
            k = Ph.key()
            if k in D1.f:
                D1.f[k][1] -= 1
                if D1.f[k][1] == 0:
                    del D1.f[k]
                P2 = Poly.const(lead)
        if not P1.is_zero() and not P1.is_const():
            lead, Ph = _normalise(P1)
            k = Ph.key()
            if k in D2.f:
                D2.f[k][1] -= 1
                if D2.f[k][1] == 0:
                    del D2.f[k]
                P1 = Poly.const(lead)
        P = P1 * P2
        D = D1
        for pf, e in D2.f.values():
            D.add_factor(pf, e)
        return self._cancel_mono(P, D)

    def _addf(self, P1, D1, P2, D2):
        if P1.is_zero():
            return P2, D2
        if P2.is_zero():
            return P1, D1
        if D1.is_one() and D2.is_one():
            return P1 + P2, D1
        # least common multiple of the factored denominators
        L = D1.copy()
        m1 = Poly.const(1)  # multiplier for P1 = L/D1
        m2 = Poly.const(1)  # multiplier for P2 = L/D2
        for k, (pf, e) in D2.f.items():
            e1 = D1.f[k][1] if k in D1.f else 0
            if e > e1:
                L.f[k] = [pf, e]
                for _ in range(e - e1):
                    m1 = m1 * pf
        for k, (pf, e) in L.f.items():
            e2 = D2.f[k][1] if k in D2.f else 0
            for _ in range(e - e2):
                m2 = m2 * pf
        P = P1 * m1 + P2 * m2
        if P.is_zero():
            return P, Den()
        return self._cancel_mono(P, L)

    def _divide(self, P, D, P2, D2):
        """(P/D) / (P2/D2)"""
        c, facs = _split_factors(P2)
        Dn = Den()
        for pf, e in facs:
            Dn.add_factor(pf, e)
        # numerator of the reciprocal is D2's product, denominator is P2's factors
        Pr = Poly.const(Fraction(1) / c)
        R_P, R_D = Pr, Dn
        # multiply by D2 (as numerator factors, cancelling where possible)
        for pf, e in D2.f.values():
            for _ in range(e):
                R_P, R_D = self._mul(R_P, R_D, pf, Den())
        return self._mul(P, D, R_P, R_D)

    def _rf(self, e):
        one = Den()
        if z3.is_rational_value(e):
            return Poly.const(Fraction(e.numerator_as_long(), e.denominator_as_long())), one
        if z3.is_int_value(e):
            return Poly.const(e.as_long()), one
        if not z3.is_app(e):
            return self.atom(e), one
        k = e.decl().kind()
        ch = e.children()
        if self.defs is not None and k == z3.Z3_OP_UNINTERPRETED and not ch:
            d = self.defs.get(e.get_id())
            if d is not None:
                P, D = self.rff(d[1])
                P2, D2 = self.rff(d[2])
                return self._divide(P, D, P2, D2)
        if k == z3.Z3_OP_ADD:
            P, D = self.rff(ch[0])
            for c in ch[1:]:
                P2, D2 = self.rff(c)
                P, D = self._addf(P, D, P2, D2)
            return P, D
        if k == z3.Z3_OP_SUB:
            P, D = self.rff(ch[0])
            for c in ch[1:]:
                P2, D2 = self.rff(c)
                P, D = self._addf(P, D, -P2, D2)
            return P, D
        if k == z3.Z3_OP_UMINUS:
            P, D = self.rff(ch[0])
            return -P, D
        if k == z3.Z3_OP_MUL:
            P, D = self.rff(ch[0])
            for c in ch[1:]:
                P2, D2 = self.rff(c)
                P, D = self._mul(P, D, P2, D2)
            return P, D
        if k == z3.Z3_OP_DIV:
            P, D = self.rff(ch[0])
            P2, D2 = self.rff(ch[1])
            if P2.is_zero():
                return self.atom(e), one
            if not P2.is_const():
                self.divisors.setdefault(P2.key(), P2)
            return self._divide(P, D, P2, D2)
        if k == z3.Z3_OP_POWER and z3.is_rational_value(ch[1]) and ch[1].denominator_as_long() == 1 and 0 <= ch[1].numerator_as_long() <= 8:
            n = ch[1].numerator_as_long()
            P, D = self.rff(ch[0])
            RP, RD = Poly.const(1), Den()
            for _ in range(n):
                RP, RD = self._mul(RP, RD, P, D)
            return RP, RD
        if k == z3.Z3_OP_TO_REAL and z3.is_int_value(ch[0]):
            return Poly.const(ch[0].as_long()), one
        return self.atom(e), one

    def reduce_sqrt(self, P, Q):
        """replace even powers of sqrt auxiliaries y (y*y == x asserted on the path) by powers of x in P (P/Q given)"""
        if not self.sqrt_sq:
            return P, Q
        for _ in range(6):
            target = None
            for m in P.t:
                for k, e in m:
                    if e >= 2 and k in self.sqrt_sq:
                        target = k
                        break
                if target is not None:
                    break
            if target is None:
                return P, Q
            Px, Qx = self.rf(self.sqrt_sq[target])
            K = max((dict(m).get(target, 0) // 2) for m in P.t)
            powsP = [Poly.const(1)]
            powsQ = [Poly.const(1)]
            for _i in range(K):
                powsP.append(powsP[-1] * Px)
                powsQ.append(powsQ[-1] * Qx)
            newP = Poly()
            for m, c in P.t.items():
                d = dict(m)
                e = d.get(target, 0)
                h = e // 2
                if e % 2:
                    d[target] = 1
                else:
                    d.pop(target, None)
                mono = Poly({tuple(sorted(d.items())): c})
                newP = newP + mono * powsP[h] * powsQ[K - h]
            P, Q = newP, Q * powsQ[K]
        return P, Q

    @staticmethod
    def _add(P, Q, P2, Q2):
        if Q.key() == Q2.key() and not Q.is_zero():
            # same denominator up to a constant factor
            if Q.t == Q2.t:
                return P + P2, Q
        if Q.is_const() and Q2.is_const():
            q, q2 = Q.const_value(), Q2.const_value()
            return P * Poly.const(q2) + P2 * Poly.const(q), Poly.const(q * q2)
        return P * Q2 + P2 * Q, Q * Q2

    def to_z3(self, P):
        if P.is_zero():
            return z3.RealVal(0)
        terms = []
        for m, c in sorted(P.t.items()):
            fs = []
            for k, e in m:
                a = self.atoms[k]
                for _ in range(e):
                    fs.append(a)
            coeff = z3.RealVal(c.numerator) / z3.RealVal(c.denominator) if c.denominator != 1 else z3.RealVal(c.numerator)
            if not fs:
                terms.append(coeff)
            else:
                prod = fs[0]
                for f in fs[1:]:
                    prod = prod * f
                terms.append(prod if c == 1 else coeff * prod)
        return z3.Sum(terms) if len(terms) > 1 else terms[0]


_ARITH_CMP = {z3.Z3_OP_LE: "<=", z3.Z3_OP_GE: ">=", z3.Z3_OP_LT: "<", z3.Z3_OP_GT: ">", z3.Z3_OP_EQ: "==", z3.Z3_OP_DISTINCT: "!="}


def _has_div(e, memo):
    i = e.get_id()
    r = memo.get(i)
    if r is None:
        r = False
        if z3.is_app(e):
            k = e.decl().kind()
            if k in (z3.Z3_OP_DIV, z3.Z3_OP_POWER):
                r = True
            else:
                for c in e.children():
                    if _has_div(c, memo):
                        r = True
                        break
        memo[i] = (e, r)
    return r


class Rewriter:
    """rewrites boolean z3 terms so that real atoms containing divisions become polynomial atoms"""

    def __init__(self, defs=None):
        self.N = Normalizer(defs)
        self.odd_sign = False  # sign of P/Q from P * (odd-exponent factors of Q) instead of P * Q
        self.expand = defs is not None
        self.memo = {}
        self.divmemo = {}
        self.stats = {"atoms_rewritten": 0, "atoms_decided_by_normal_form": 0, "too_big": 0}

    def rewrite(self, e):
        i = e.get_id()
        r = self.memo.get(i)
        if r is None:
            r = (e, self._rw(e))
            self.memo[i] = r
        return r[1]

    def _rw(self, e):
        if not z3.is_app(e) or not z3.is_bool(e):
            return e
        k = e.decl().kind()
        ch = e.children()
        if k in _ARITH_CMP and len(ch) == 2 and z3.is_real(ch[0]) and (self.expand or _has_div(ch[0], self.divmemo) or _has_div(ch[1], self.divmemo)):
            # If-terms inside arithmetic stay opaque; that is fine
            try:
                P1, D1 = self.N.rff(ch[0])
                P2, D2 = self.N.rff(ch[1])
                P, D = self.N._addf(P1, D1, -P2, D2)
                if self.N.sqrt_sq and any(kk in self.N.sqrt_sq for kk in P.atoms()):
                    P, Q = self.N.reduce_sqrt(P, D.poly())
                else:
                    Q = D.odd_poly() if self.odd_sign else D.poly()
                op = _ARITH_CMP[k]
                self.stats["atoms_rewritten"] += 1
                if op in ("==", "!="):
                    if P.is_zero():
                        self.stats["atoms_decided_by_normal_form"] += 1
                        return z3.BoolVal(op == "==")
                    pz = self.N.to_z3(P)
                    return pz == 0 if op == "==" else pz != 0
                if P.is_zero():
                    self.stats["atoms_decided_by_normal_form"] += 1
                    return z3.BoolVal(op in ("<=", ">="))
                if Q.is_const():
                    s = P if Q.const_value() > 0 else -P
                else:
                    s = P * Q
                if s.is_const():
                    v = s.const_value()
                    self.stats["atoms_decided_by_normal_form"] += 1
                    return z3.BoolVal({"<=": v <= 0, ">=": v >= 0, "<": v < 0, ">": v > 0}[op])
                sz = self.N.to_z3(s)
                return {"<=": sz <= 0, ">=": sz >= 0, "<": sz < 0, ">": sz > 0}[op]
            except TooBig:
                self.stats["too_big"] += 1
                return e
        if k in (z3.Z3_OP_AND, z3.Z3_OP_OR, z3.Z3_OP_NOT, z3.Z3_OP_IMPLIES, z3.Z3_OP_XOR) or (
                k in (z3.Z3_OP_EQ, z3.Z3_OP_ITE, z3.Z3_OP_DISTINCT) and all(z3.is_bool(c) for c in ch)):
            new = [self.rewrite(c) for c in ch]
            if all(a.get_id() == b.get_id() for a, b in zip(new, ch)):
                return e
            if k == z3.Z3_OP_AND:
                return z3.And(*new)
            if k == z3.Z3_OP_OR:
                return z3.Or(*new)
            if k == z3.Z3_OP_NOT:
                return z3.Not(new[0])
            if k == z3.Z3_OP_IMPLIES:
                return z3.Implies(new[0], new[1])
            if k == z3.Z3_OP_XOR:
                return z3.Xor(new[0], new[1])
            if k == z3.Z3_OP_EQ:
                return new[0] == new[1]
            if k == z3.Z3_OP_DISTINCT:
                return z3.Distinct(*new)
            if k == z3.Z3_OP_ITE:
                return z3.If(new[0], new[1], new[2])
        return e

    def pop_divisors(self):
        d = self.N.divisors
        self.N.divisors = {}
        return d
