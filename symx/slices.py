"""Compile a range of statements of a function/method of the current source (selected by anchors that are code) into a stand-alone function."""
import ast
import hashlib
import inspect
import textwrap


def slice_function(func, start_pred, end_pred, argnames, module_globals, returns="locals", name="slice"):
    """statements of func's top-level body from the first matching start_pred(node) up to (excluding) the first later node matching end_pred.
    The compiled function takes `argnames` and returns its locals()."""
    src = textwrap.dedent(inspect.getsource(func))
    _, first_line = inspect.getsourcelines(func)
    fn = ast.parse(src).body[0]
    body = fn.body
    start = next((i for i, n in enumerate(body) if start_pred(n)), None)
    if start is None:
        raise LookupError("slice start anchor not found in %s" % func.__qualname__)
    end = next((i for i, n in enumerate(body) if i > start and end_pred(n)), None)
    if end is None:
        raise LookupError("slice end anchor not found in %s" % func.__qualname__)
    ret = ast.parse("return locals()").body[0]
    args = ast.arguments(posonlyargs=[], args=[ast.arg(arg=a) for a in argnames], kwonlyargs=[], kw_defaults=[], defaults=[])
    f2 = ast.FunctionDef(name=name, args=args, body=body[start:end] + [ret], decorator_list=[], returns=None, type_comment=None, type_params=[])
    mod = ast.Module(body=[f2], type_ignores=[])
    ast.fix_missing_locations(mod)
    ns = dict(module_globals)
    exec(compile(mod, "<slice of %s>" % func.__qualname__, "exec"), ns)
    text = "\n".join(src.splitlines()[body[start].lineno - 1: body[end - 1].end_lineno])
    info = {"function": "%s[%s]" % (func.__qualname__, name), "file": inspect.getsourcefile(func),
            "lines": [first_line + body[start].lineno - 1, first_line + body[end - 1].end_lineno - 1],
            "sha1": hashlib.sha1(text.encode()).hexdigest()[:12]}
    return ns[name], info


def is_if_on(attr):
    """`if self.user_options.<attr>:`"""
    def pred(n):
        return isinstance(n, ast.If) and attr in ast.unparse(n.test)
    return pred


def is_call_stmt(text):
    def pred(n):
        return isinstance(n, ast.Expr) and isinstance(n.value, ast.Call) and text in ast.unparse(n.value.func)
    return pred


def is_assign_to(name):
    def pred(n):
        return isinstance(n, ast.Assign) and any(name == ast.unparse(t) for t in n.targets)
    return pred
