"""Module-namespace substitution: a proxy for the `numpy` name inside hypnotoad modules that forwards
everything to real numpy except allocators (object dtype so that symbols can be stored) and a few
routines that have no object-dtype loop.  Only used in symbolic mode; concrete replays run the code
with the real numpy module."""
import contextlib
import sys
import types

import numpy
import z3

from . import core


def _has_sym(a):
    if core.is_sym(a):
        return True
    if isinstance(a, numpy.ndarray) and a.dtype == object:
        return any(core.is_sym(x) for x in a.flat)
    if isinstance(a, (list, tuple)):
        return any(_has_sym(x) for x in a)
    return False


class NumpyProxy(types.ModuleType):
    def __init__(self, real=numpy):
        super().__init__("numpy_proxy")
        self.__dict__["_real"] = real

    def __getattr__(self, k):
        return getattr(self._real, k)

    # allocators -> object dtype
    def zeros(self, shape, dtype=None, **k):
        if dtype in (int, bool, numpy.int64, numpy.bool_):
            return self._real.zeros(shape, dtype=dtype, **k)
        a = self._real.empty(shape, dtype=object)
        a[...] = 0.0
        return a

    def empty(self, shape, dtype=None, **k):
        return self.zeros(shape, dtype=dtype)

    def ones(self, shape, dtype=None, **k):
        a = self._real.empty(shape, dtype=object)
        a[...] = 1.0
        return a

    def zeros_like(self, a, dtype=None, **k):
        return self.zeros(self._real.shape(a), dtype=dtype)

    def full(self, shape, v, **k):
        a = self._real.empty(shape, dtype=object)
        a[...] = v
        return a

    def array(self, x, dtype=None, **k):
        if dtype is float and _has_sym(x):
            dtype = object
        if _has_sym(x):
            return self._real.array(x, dtype=object)
        return self._real.array(x, dtype=dtype, **k)

    def asarray(self, x, dtype=None, **k):
        if isinstance(x, self._real.ndarray):
            return x
        return self.array(x, dtype=dtype)

    def float64(self, x):
        if core.is_sym(x):
            return x
        return self._real.float64(x)

    def where(self, c, *ab):
        if not ab:
            return self._real.where(_boolify(c))
        a, b = ab
        if not _has_sym(c):
            return self._real.where(_asbool(c), a, b)
        c_, a_, b_ = self._real.broadcast_arrays(self._real.asarray(c, dtype=object), self._real.asarray(a, dtype=object),
                                                 self._real.asarray(b, dtype=object))
        out = self._real.empty(c_.shape, dtype=object)
        for idx in self._real.ndindex(c_.shape):
            out[idx] = core.ite(c_[idx], a_[idx], b_[idx])
        return out if out.ndim else out.item()

    def isclose(self, a, b, rtol=1e-5, atol=1e-8):
        if not (_has_sym(a) or _has_sym(b)):
            return self._real.isclose(a, b, rtol=rtol, atol=atol)
        return abs(a - b) <= atol + rtol * abs(b)

    def linspace(self, a, b, n=50, endpoint=True):
        if not (_has_sym(a) or _has_sym(b)):
            return self._real.linspace(a, b, n, endpoint=endpoint)
        n = int(n)
        d = (n - 1) if endpoint else n
        out = self._real.empty(n, dtype=object)
        for k in range(n):
            out[k] = a + (b - a) * k / d if d else a
        return out

    def isnan(self, a):
        if _has_sym(a):
            return self._real.zeros(self._real.shape(a), dtype=bool) if self._real.ndim(a) else False
        return self._real.isnan(a)

    def isfinite(self, a):
        if _has_sym(a):
            return self._real.ones(self._real.shape(a), dtype=bool) if self._real.ndim(a) else True
        return self._real.isfinite(a)

    def all(self, a, *args, **k):
        if _has_sym(a):
            r = True
            for x in self._real.asarray(a, dtype=object).flat:
                r = x if r is True else (r & x)
            return r
        return self._real.all(a, *args, **k)

    def any(self, a, *args, **k):
        if _has_sym(a):
            r = False
            for x in self._real.asarray(a, dtype=object).flat:
                r = x if r is False else (r | x)
            return r
        return self._real.any(a, *args, **k)

    def sign(self, a):
        if core.is_sym(a):
            return core.SymReal(z3.If(core.lift_real(a) > 0, z3.RealVal(1), z3.If(core.lift_real(a) < 0, z3.RealVal(-1), z3.RealVal(0))))
        if _has_sym(a):
            arr = self._real.asarray(a, dtype=object)
            out = self._real.empty(arr.shape, dtype=object)
            for idx in self._real.ndindex(arr.shape):
                out[idx] = self.sign(arr[idx]) if core.is_sym(arr[idx]) else self._real.sign(arr[idx])
            return out
        return self._real.sign(a)

    def maximum(self, a, b):
        if _has_sym(a) or _has_sym(b):
            return self.where(a >= b, a, b)
        return self._real.maximum(a, b)

    def minimum(self, a, b):
        if _has_sym(a) or _has_sym(b):
            return self.where(a <= b, a, b)
        return self._real.minimum(a, b)


def _asbool(c):
    return numpy.asarray(c, dtype=bool)


def _boolify(c):
    arr = numpy.asarray(c, dtype=object)
    out = numpy.empty(arr.shape, dtype=bool)
    for idx in numpy.ndindex(arr.shape):
        out[idx] = bool(arr[idx])
    return out


@contextlib.contextmanager
def patched(*triples):
    """patched((module, 'name', value), ...) : temporarily rebind module-level names"""
    saved = []
    try:
        for mod, name, val in triples:
            saved.append((mod, name, mod.__dict__.get(name, _MISSING)))
            setattr(mod, name, val)
        yield
    finally:
        for mod, name, old in reversed(saved):
            if old is _MISSING:
                try:
                    delattr(mod, name)
                except AttributeError:
                    pass
            else:
                setattr(mod, name, old)


_MISSING = object()


def install_fake_matplotlib():
    """calcMetric's failure branch calls matplotlib before raising; give it an inert module"""
    class _Inert(types.ModuleType):
        def __getattr__(self, k):
            return lambda *a, **kw: None

    m = _Inert("matplotlib")
    p = _Inert("matplotlib.pyplot")
    m.pyplot = p
    sys.modules["matplotlib"] = m
    sys.modules["matplotlib.pyplot"] = p


def symarray(env, name, shape, **kw):
    a = numpy.empty(shape, dtype=object if env.mode == "sym" else float)
    for idx in numpy.ndindex(*shape) if shape else [()]:
        a[idx] = env.real(name + "".join("_%d" % i for i in idx), **kw)
    return a
