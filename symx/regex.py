"""Translate the subset of Python regular expressions used by hypnotoad's geqdsk reader into z3 regular
expressions: literals, escapes (\\d \\. \\+ \\-), character classes [...], groups (?:...), ( ... ), quantifiers ? + * {m} {m,n},
alternation |.  Anything else raises (the check then reports a harness error rather than guessing)."""
import z3

DIGIT = z3.Range("0", "9")


class RegexUnsupported(Exception):
    pass


def _cls_item(ch):
    return z3.Re(ch)


class _P:
    def __init__(self, s):
        self.s = s
        self.i = 0

    def peek(self):
        return self.s[self.i] if self.i < len(self.s) else None

    def eat(self):
        c = self.s[self.i]
        self.i += 1
        return c

    def alt(self):
        parts = [self.seq()]
        while self.peek() == "|":
            self.eat()
            parts.append(self.seq())
        return parts[0] if len(parts) == 1 else z3.Union(*parts)

    def seq(self):
        items = []
        while self.peek() is not None and self.peek() not in "|)":
            items.append(self.quant())
        if not items:
            return z3.Re("")
        return items[0] if len(items) == 1 else z3.Concat(*items)

    def quant(self):
        a = self.atom()
        c = self.peek()
        if c == "?":
            self.eat()
            return z3.Option(a)
        if c == "+":
            self.eat()
            return z3.Plus(a)
        if c == "*":
            self.eat()
            return z3.Star(a)
        if c == "{":
            self.eat()
            num = ""
            while self.peek() != "}":
                num += self.eat()
            self.eat()
            if "," in num:
                lo, hi = num.split(",")
                return z3.Loop(a, int(lo), int(hi))
            return z3.Loop(a, int(num), int(num))
        return a

    def escape(self):
        c = self.eat()
        if c == "d":
            return DIGIT
        if c in ".+-\\()[]{}?*|^$ ":
            return z3.Re(c)
        raise RegexUnsupported("escape \\%s" % c)

    def atom(self):
        c = self.eat()
        if c == "(":
            if self.peek() == "?":
                self.eat()
                if self.eat() != ":":
                    raise RegexUnsupported("group flag")
            r = self.alt()
            if self.eat() != ")":
                raise RegexUnsupported("unbalanced")
            return r
        if c == "[":
            items = []
            if self.peek() == "^":
                raise RegexUnsupported("negated class")
            while self.peek() != "]":
                ch = self.eat()
                if ch == "\\":
                    e = self.eat()
                    items.append(DIGIT if e == "d" else z3.Re(e))
                elif self.peek() == "-" and self.s[self.i + 1] != "]":
                    self.eat()
                    hi = self.eat()
                    items.append(z3.Range(ch, hi))
                else:
                    items.append(z3.Re(ch))
            self.eat()
            return items[0] if len(items) == 1 else z3.Union(*items)
        if c == "\\":
            return self.escape()
        if c == ".":
            raise RegexUnsupported("dot")
        if c in "^$":
            raise RegexUnsupported("anchor")
        return z3.Re(c)


def to_z3(pattern):
    p = _P(pattern)
    r = p.alt()
    if p.i != len(pattern):
        raise RegexUnsupported("trailing input at %d" % p.i)
    return r


def printf_E(precision, exp_digits=(2, 2)):
    """language of C printf('%1.<p>E') for finite doubles: -?d.d{p}E[+-]d{2,3}"""
    return z3.Concat(z3.Option(z3.Re("-")), DIGIT, z3.Re("."), z3.Loop(DIGIT, precision, precision), z3.Re("E"),
                     z3.Union(z3.Re("+"), z3.Re("-")), z3.Loop(DIGIT, exp_digits[0], exp_digits[1]))
