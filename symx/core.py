"""symx core: symbolic values over z3 that flow through the *real* hypnotoad code (inside
numpy object arrays), a DART-style path explorer (re-execution with a decision prefix) and the
Env object through which a harness creates inputs, states assumptions and makes claims.

A harness body is written once and run in two modes:
  * mode 'sym' : inputs are z3 variables, `claim` asks the solver whether the negation is
                 satisfiable under the current path condition;
  * mode 'conc': inputs are plain Python floats/ints taken from a solver model, the same body is
                 executed with ordinary numpy arithmetic (this is the replay of a counterexample).
"""
import itertools
import math
import numbers
import time
from fractions import Fraction

import numpy
import z3


class PathAbort(BaseException):
    """Raised to abandon the current path (infeasible / vacuous).  BaseException on purpose: the code
    under test catches Exception in places."""


class HarnessError(Exception):
    """The harness reached something it cannot encode (e.g. float() of a symbol)."""


class ReplayPreconditionFailed(Exception):
    pass


# ---------------------------------------------------------------------------------------------
# current environment (one per process; obligations run in separate processes)
ENV = None


def env():
    return ENV


# ---------------------------------------------------------------------------------------------
# lifting of Python numbers to z3 terms

PI = z3.Real("pi")
PI_ZERO = z3.RealVal(1)
PI_AXIOMS = [PI > z3.RealVal("3.14159265358979"), PI < z3.RealVal("3.14159265358980")]
_PI_MULTIPLES = {}
for _num in range(-16, 17):
    for _den in (1, 2, 3, 4, 5, 6, 7, 8, 10, 12):
        if _num:
            _PI_MULTIPLES[float(_num * math.pi / _den)] = Fraction(_num, _den)
            _PI_MULTIPLES[float(_num / (math.pi * _den))] = ("inv", Fraction(_num, _den))


_PI2_MULTIPLES = {}
for _a in range(1, 37):
    for _b in (1, 2, 3, 4, 6, 8, 9, 12, 16, 18, 24, 32, 36, 48, 64, 72, 81, 144):
        _q = Fraction(_a, _b)
        _PI2_MULTIPLES.setdefault(float(_q.numerator * math.pi * math.pi / _q.denominator), _q)
        _PI2_MULTIPLES.setdefault(float(((math.pi * _q.numerator) / _q.denominator) * math.pi), _q)
for _k in range(0, 9):
    for _n in range(1, 9):
        for _d in (1.0, 2.0, 0.5, 4.0, 0.25):
            _v = float((math.pi * _k / _n / _d) ** 2)
            if _v:
                _PI2_MULTIPLES.setdefault(_v, Fraction(_k * _k, _n * _n) / Fraction(_d) ** 2)


def frac_of_float(x):
    """smallest-denominator (power-of-ten ladder) rational that rounds to the double x"""
    fr = Fraction(x)
    for k in range(0, 17):
        c = fr.limit_denominator(10 ** k)
        if float(c) == x:
            return c
    return fr


def z3frac(fr):
    if fr.denominator == 1:
        return z3.RealVal(fr.numerator)
    return z3.RealVal(fr.numerator) / z3.RealVal(fr.denominator)


def lift_real(x):
    if isinstance(x, SymReal):
        return x.e
    if isinstance(x, SymInt):
        return z3.ToReal(x.e)
    if isinstance(x, (bool, numpy.bool_)):
        return z3.RealVal(int(x))
    if isinstance(x, (int, numpy.integer)):
        return z3.RealVal(int(x))
    if isinstance(x, (float, numpy.floating)):
        x = float(x)
        if x != x or x in (math.inf, -math.inf):
            raise HarnessError("non-finite float meets a symbol: %r" % x)
        m = _PI_MULTIPLES.get(x)
        if m is not None:
            if ENV is not None:
                ENV.uses_pi = True
            if isinstance(m, tuple):
                return z3frac(m[1]) / PI
            return z3frac(m) * PI
        m2 = _PI2_MULTIPLES.get(x) or (_PI2_MULTIPLES.get(-x) and -_PI2_MULTIPLES[-x])
        if m2:
            if ENV is not None:
                ENV.uses_pi = True
            return z3frac(m2) * PI * PI
        return z3frac(frac_of_float(x))
    if isinstance(x, Fraction):
        return z3frac(x)
    if isinstance(x, numpy.ndarray) and x.ndim == 0:
        return lift_real(x.item())
    raise TypeError(type(x))


def lift_int(x):
    if isinstance(x, SymInt):
        return x.e
    if isinstance(x, (bool, numpy.bool_)):
        return z3.IntVal(int(x))
    if isinstance(x, (int, numpy.integer)):
        return z3.IntVal(int(x))
    raise TypeError(type(x))


def lift_bool(x):
    if isinstance(x, SymBool):
        return x.e
    if isinstance(x, (bool, numpy.bool_)):
        return z3.BoolVal(bool(x))
    raise TypeError(type(x))


def is_sym(x):
    return isinstance(x, (SymReal, SymInt, SymBool))


# ---------------------------------------------------------------------------------------------
class SymBool:
    __slots__ = ("e",)

    def __init__(self, e):
        self.e = e

    def __bool__(self):
        return ENV.branch(self.e)

    def _b(self, o, f):
        try:
            return SymBool(f(self.e, lift_bool(o)))
        except TypeError:
            return NotImplemented

    def __and__(self, o):
        return self._b(o, lambda a, b: z3.And(a, b))

    __rand__ = __and__

    def __or__(self, o):
        return self._b(o, lambda a, b: z3.Or(a, b))

    __ror__ = __or__

    def __xor__(self, o):
        return self._b(o, lambda a, b: z3.Xor(a, b))

    __rxor__ = __xor__

    def __invert__(self):
        return SymBool(z3.Not(self.e))

    def logical_not(self):
        return SymBool(z3.Not(self.e))

    def __eq__(self, o):
        return self._b(o, lambda a, b: a == b)

    def __ne__(self, o):
        return self._b(o, lambda a, b: a != b)

    __hash__ = None

    def __repr__(self):
        return "SymBool(%s)" % self.e


def _unary_uf(name):
    f = z3.Function(name, z3.RealSort(), z3.RealSort())
    return f


UF = {n: _unary_uf("uf_" + n) for n in ("exp", "log", "sin", "cos", "erf", "Si", "Ci", "arctan", "tan")}


class SymStr:
    """z3 String wrapper: comparisons with Python str (or SymStr) are symbolic; hashable by identity so that it can be a dict key"""
    __slots__ = ("e",)

    def __init__(self, e):
        self.e = e

    def _other(self, o):
        if isinstance(o, SymStr):
            return o.e
        if isinstance(o, str):
            return z3.StringVal(o)
        return None

    def __eq__(self, o):
        oe = self._other(o)
        if oe is None:
            return False
        return SymBool(self.e == oe)

    def __ne__(self, o):
        oe = self._other(o)
        if oe is None:
            return True
        return SymBool(self.e != oe)

    def __hash__(self):
        return id(self)

    def __repr__(self):
        return "SymStr(%s)" % self.e


class SymReal:
    __slots__ = ("e",)

    def __init__(self, e):
        self.e = e

    # -- arithmetic
    def _bin(self, o, f):
        try:
            b = lift_real(o)
        except TypeError:
            return NotImplemented
        return SymReal(f(self.e, b))

    def _rbin(self, o, f):
        try:
            b = lift_real(o)
        except TypeError:
            return NotImplemented
        return SymReal(f(b, self.e))

    def __add__(self, o):
        return self._bin(o, lambda a, b: a + b)

    def __radd__(self, o):
        return self._rbin(o, lambda a, b: a + b)

    def __sub__(self, o):
        return self._bin(o, lambda a, b: a - b)

    def __rsub__(self, o):
        return self._rbin(o, lambda a, b: a - b)

    def __mul__(self, o):
        if isinstance(o, SymReal) and ENV is not None and ENV.sqrt_sq:
            sq = ENV.sqrt_sq.get(self.e.get_id())
            if sq is not None and o.e.get_id() == self.e.get_id():
                return SymReal(sq)  # sqrt(x)*sqrt(x) -> x
        return self._bin(o, lambda a, b: a * b)

    def __rmul__(self, o):
        return self._rbin(o, lambda a, b: a * b)

    def __truediv__(self, o):
        try:
            b = lift_real(o)
        except TypeError:
            return NotImplemented
        return SymReal(_div(self.e, b))

    def __rtruediv__(self, o):
        try:
            b = lift_real(o)
        except TypeError:
            return NotImplemented
        return SymReal(_div(b, self.e))

    def __neg__(self):
        return SymReal(-self.e)

    def __pos__(self):
        return self

    def __abs__(self):
        if ENV is not None and ENV.mode == "sym" and ENV.resolve_abs:
            sg = ENV.sign_of(self.e)
            if sg > 0:
                return self
            if sg < 0:
                return SymReal(-self.e)
        return SymReal(z3.If(self.e >= 0, self.e, -self.e))

    def conjugate(self):
        return self

    def __pow__(self, p):
        if isinstance(p, (SymReal, SymInt)):
            raise HarnessError("symbolic exponent")
        p = float(p)
        if p == int(p):
            n = int(p)
            if n >= 0:
                if n == 2:
                    return self * self
                r = z3.RealVal(1)
                for _ in range(n):
                    r = r * self.e
                return SymReal(r)
            return SymReal(z3.RealVal(1)) / (self ** (-n))
        if p == 0.5:
            return self.sqrt()
        if p == 1.5:
            return self * self.sqrt()
        if p == -0.5:
            return 1 / self.sqrt()
        if p == -1.5:
            return 1 / (self * self.sqrt())
        if p == 2.5:
            return self * self * self.sqrt()
        raise HarnessError("pow %r" % p)

    def __rpow__(self, base):
        raise HarnessError("symbolic exponent")

    # -- non-polynomial functions (numpy calls these on object arrays)
    def sqrt(self):
        return ENV.sqrt(self)

    def _uf(self, name):
        ENV.ufs_used.add(name)
        app = UF[name](self.e)
        if ENV.mode == "sym":
            ENV.uf_apps.append((name, self.e, app))
        return SymReal(app)

    def erf(self):
        return self._uf("erf")

    def exp(self):
        return self._uf("exp")

    def log(self):
        return self._uf("log")

    def sin(self):
        return self._uf("sin")

    def cos(self):
        return self._uf("cos")

    def tan(self):
        return self._uf("tan")

    def arctan(self):
        return self._uf("arctan")

    # -- comparisons
    def _cmp(self, o, f):
        try:
            b = lift_real(o)
        except TypeError:
            return NotImplemented
        return SymBool(f(self.e, b))

    def __lt__(self, o):
        return self._cmp(o, lambda a, b: a < b)

    def __le__(self, o):
        return self._cmp(o, lambda a, b: a <= b)

    def __gt__(self, o):
        return self._cmp(o, lambda a, b: a > b)

    def __ge__(self, o):
        return self._cmp(o, lambda a, b: a >= b)

    def __eq__(self, o):
        r = self._cmp(o, lambda a, b: a == b)
        return False if r is NotImplemented else r

    def __ne__(self, o):
        r = self._cmp(o, lambda a, b: a != b)
        return True if r is NotImplemented else r

    __hash__ = None

    def __float__(self):
        raise HarnessError("float() of a symbolic real: stub before this point")

    def __int__(self):
        raise HarnessError("int() of a symbolic real")

    def __repr__(self):
        return "SymReal(%s)" % z3.simplify(self.e)


def _div(a, b):
    bs = z3.simplify(b)
    if z3.is_rational_value(bs) and bs.numerator_as_long() == 0:
        if ENV is not None:
            ENV.events.append({"kind": "division_by_constant_zero", "numerator": str(z3.simplify(a))[:120]})
        return DIVZERO(a)
    if ENV is not None and ENV.mode == "sym" and ENV.abstract_div and not z3.is_rational_value(bs):
        return ENV.abstract_quotient(a, b)
    return a / b


# x / 0  is represented by an uninterpreted marker so that it is visibly "not a number" in claims
DIVZERO = z3.Function("DIV_BY_ZERO", z3.RealSort(), z3.RealSort())

numbers.Number.register(SymReal)


class SymInt:
    __slots__ = ("e",)

    def __init__(self, e):
        self.e = e

    def _b(self, o, f, r=False):
        if isinstance(o, SymReal) or isinstance(o, (float, numpy.floating)):
            a = SymReal(z3.ToReal(self.e))
            return NotImplemented if a is None else ("promote", a)
        try:
            b = lift_int(o)
        except TypeError:
            return NotImplemented
        return SymInt(f(b, self.e) if r else f(self.e, b))

    def _arith(self, o, f, name, r=False):
        res = self._b(o, f, r)
        if isinstance(res, tuple):
            a = res[1]
            return getattr(a, name)(o)
        return res

    def __add__(s, o):
        return s._arith(o, lambda a, b: a + b, "__add__")

    def __radd__(s, o):
        return s._arith(o, lambda a, b: a + b, "__radd__", True)

    def __sub__(s, o):
        return s._arith(o, lambda a, b: a - b, "__sub__")

    def __rsub__(s, o):
        return s._arith(o, lambda a, b: a - b, "__rsub__", True)

    def __mul__(s, o):
        return s._arith(o, lambda a, b: a * b, "__mul__")

    def __rmul__(s, o):
        return s._arith(o, lambda a, b: a * b, "__rmul__", True)

    def __floordiv__(s, o):
        # z3 integer division is floor for positive divisors (Euclidean); harnesses only divide by positive constants
        if isinstance(o, (int, numpy.integer)) and int(o) > 0:
            return SymInt(s.e / z3.IntVal(int(o)))
        raise HarnessError("floordiv by non-positive-constant")

    def __mod__(s, o):
        if isinstance(o, (int, numpy.integer)) and int(o) > 0:
            return SymInt(s.e % z3.IntVal(int(o)))
        raise HarnessError("mod by non-positive-constant")

    def __neg__(s):
        return SymInt(-s.e)

    def __pos__(s):
        return s

    def __abs__(s):
        return SymInt(z3.If(s.e >= 0, s.e, -s.e))

    def __truediv__(s, o):
        return SymReal(z3.ToReal(s.e)) / o

    def __rtruediv__(s, o):
        return o / SymReal(z3.ToReal(s.e))

    def __pow__(s, p):
        if isinstance(p, int) and p >= 0:
            r = z3.IntVal(1)
            for _ in range(p):
                r = r * s.e
            return SymInt(r)
        return SymReal(z3.ToReal(s.e)) ** p

    def _c(s, o, f):
        if isinstance(o, SymReal) or isinstance(o, (float, numpy.floating)):
            return getattr(SymReal(z3.ToReal(s.e)), f)(o)
        try:
            b = lift_int(o)
        except TypeError:
            return NotImplemented
        return SymBool(getattr(s.e, f)(b))

    def __lt__(s, o):
        return s._c(o, "__lt__")

    def __le__(s, o):
        return s._c(o, "__le__")

    def __gt__(s, o):
        return s._c(o, "__gt__")

    def __ge__(s, o):
        return s._c(o, "__ge__")

    def __eq__(s, o):
        if o is None:
            return False
        r = s._c(o, "__eq__")
        return False if r is NotImplemented else r

    def __ne__(s, o):
        if o is None:
            return True
        r = s._c(o, "__ne__")
        return True if r is NotImplemented else r

    __hash__ = None

    def __index__(s):
        return ENV.concretize_int(s)

    def __int__(s):
        return ENV.concretize_int(s)

    def __float__(s):
        raise HarnessError("float() of a symbolic int")

    def __repr__(s):
        return "SymInt(%s)" % z3.simplify(s.e)


numbers.Number.register(SymInt)


# ---------------------------------------------------------------------------------------------
def model_value(model, term):
    v = model.eval(term, model_completion=True)
    if z3.is_int_value(v):
        return v.as_long()
    if z3.is_rational_value(v):
        return float(Fraction(v.numerator_as_long(), v.denominator_as_long()))
    if z3.is_algebraic_value(v):
        return float(v.approx(20).as_fraction())
    if z3.is_true(v):
        return True
    if z3.is_false(v):
        return False
    if z3.is_string_value(v):
        return v.as_string()
    try:
        return float(str(v))
    except Exception:
        return str(v)


class Claim:
    __slots__ = ("name", "paths", "held", "violated", "unknown", "trivial", "models", "solver_s", "conc", "domains")

    def __init__(self, name):
        self.name = name
        self.paths = 0
        self.held = 0
        self.violated = 0
        self.unknown = 0
        self.trivial = 0
        self.models = []
        self.solver_s = 0.0
        self.conc = None
        self.domains = None

    def as_dict(self):
        return {k: getattr(self, k) for k in self.__slots__}


class Env:
    """Execution environment: explorer + input factory + claim recorder."""

    def __init__(self, mode="sym", values=None, timeout_ms=20000, max_paths=4000, tol=1e-6, final_timeout_ms=None):
        self.mode = mode
        self.values = values or {}
        self.timeout_ms = timeout_ms
        self.final_timeout_ms = final_timeout_ms or timeout_ms
        self.max_paths = max_paths
        self.tol = tol
        self.claims = {}
        self.stats = dict(paths=0, aborted=0, queries=0, sat=0, unsat=0, unknown=0, solver_s=0.0, exceptions=0,
                          budget_exhausted=False)
        self.events = []
        self.ufs_used = set()
        self.uses_pi = False
        self.sqrt_hints = []
        self.inputs = {}  # name -> z3 var (sym mode) ; insertion ordered
        self.fresh = itertools.count()
        self.worklist = [[]]
        self.path_log = []
        self.notes = []
        self.tags = {}
        self.resolve_abs = True
        self.hint_solver = False
        self.abstract_div = False
        self.nonzero_with_defs = True
        self.logic = None
        self.guided_tries = 3
        self.external_only = False   # with external_first: do not fall back to the in-process solver (it can overrun its limits by minutes)
        self.external_first = False  # ask the system z3 binary (hard time limit: subprocess) before the in-process cascade
        self.use_ratfun = True
        self.rw_stats = {"atoms_rewritten": 0, "atoms_decided_by_normal_form": 0, "too_big": 0, "divisors_proved_nonzero": 0,
                         "divisors_assumed_nonzero": 0}
        self._start_path([])

    # ---- path management
    def _start_path(self, prefix):
        self.prefix = list(prefix)
        self.pos = 0
        self.pc = []
        self.inputs = {}
        self.sqrt_sq_reset = True
        self.uf_apps = []
        self.uf_axioms_done = set()
        self.sqrt_memo = []
        self.choice_log = []
        self._conc_choice = 0
        self.sqrt_sq = {}
        self._keep = []
        self.domains = {}
        self.nice = []
        self.fresh = itertools.count()
        self.path_tags = []
        if self.mode == "sym":
            self.solver = z3.Solver()
            self.solver.set("timeout", self.timeout_ms)
            for a in PI_AXIOMS:
                self.solver.add(a)
            if getattr(self, "rw", None) is not None:
                for k in ("atoms_rewritten", "atoms_decided_by_normal_form", "too_big"):
                    self.rw_stats[k] += self.rw.stats[k]
            from .ratfun import Rewriter
            self.rw = Rewriter()
            self.defs = {}
            self.def_constraints = []
            self.rw_full = Rewriter(self.defs)
            self.sqrt_sq = {}
            self.rw.N.sqrt_sq = self.sqrt_sq
            self.rw_full.N.sqrt_sq = self.sqrt_sq
            self.nonzero_done = set()

    def _rewrite(self, c):
        if not self.use_ratfun:
            return c
        c2 = self.rw.rewrite(c)
        divs = self.rw.pop_divisors()
        for key, P in divs.items():
            if key in self.nonzero_done:
                continue
            self.nonzero_done.add(key)
            pz = self.rw.N.to_z3(P)
            self.solver.push()
            self.solver.add(pz == 0)
            t = time.time()
            r = str(self.solver.check())
            self.stats["queries"] += 1
            self.stats[r] += 1
            self.stats["solver_s"] += time.time() - t
            self.solver.pop()
            if r == "unsat":
                self.rw_stats["divisors_proved_nonzero"] += 1
            else:
                self.rw_stats["divisors_assumed_nonzero"] += 1
                if len(self.events) < 50:
                    self.events.append({"kind": "divisor_may_be_zero(%s)" % r, "divisor": str(z3.simplify(pz))[:160]})
                self.pc.append(pz != 0)
                self.solver.add(pz != 0)
        return c2

    def abstract_quotient(self, a, b):
        """a/b is replaced by a fresh variable q; its definition q*b == a is kept aside ('lazy'): branch feasibility and the
        first attempt at every claim see q as unconstrained (an over-approximation, sound for 'unsat'); claims that are not
        discharged abstractly are re-decided with all definitions asserted; identities are decided on the fully expanded
        rational functions."""
        self._nonzero(b)
        q = z3.Real("q!%d" % next(self.fresh))
        self.defs[q.get_id()] = (q, a, b)
        self._keep.append(q)
        self.def_constraints.append(q * b == a)
        self.stats["abstracted_quotients"] = self.stats.get("abstracted_quotients", 0) + 1
        return q

    def _nonzero(self, b):
        """prove (or assume and report) that a divisor is non-zero on this path"""
        eq = self.rw_full.rewrite(b / 1 == 0) if False else None
        N = self.rw_full.N
        P, Q = N.rf(b)
        self.rw_full.pop_divisors()
        key = P.key()
        if P.is_const() or key in self.nonzero_done:
            return
        self.nonzero_done.add(key)
        r, _, _ = self._check(b == 0)
        if r != "unsat":
            r2 = r
            if self.def_constraints and self.nonzero_with_defs:
                r2, _, _ = self._check(b == 0, with_defs=True)
            if r2 != "unsat":
                self.rw_stats["divisors_assumed_nonzero"] += 1
                if len(self.events) < 50:
                    self.events.append({"kind": "divisor_may_be_zero(%s)" % r2, "divisor": str(z3.simplify(b))[:160]})
                self.pc.append(b != 0)
                self.solver.add(b != 0)
                return
        self.rw_stats["divisors_proved_nonzero"] += 1

    def add_uf_axioms(self):
        """instantiate sound facts about the uninterpreted exp/log/sin/cos/erf applications met so far:
        exp>0, exp(0)=1, log(1)=0, |sin|,|cos|<=1, sin^2+cos^2=1, values at multiples of pi/2, double-angle
        relations between applications whose arguments are u and 2u, erf(0)=0, erf odd, |erf|<1"""
        apps = list(self.uf_apps)
        S = lambda e: SymReal(e)  # noqa
        half_pi = [(k, z3.RealVal(k) * PI / 2) for k in range(0, 5)]
        for (name, arg, app) in apps:
            key = (name, arg.get_id())
            if key in self.uf_axioms_done:
                continue
            self.uf_axioms_done.add(key)
            self._keep.append(arg)
            if name == "exp":
                self.add(app > 0)
                if self.identical(S(arg), 0):
                    self.add(app == 1)
            elif name == "log":
                if self.identical(S(arg), 1):
                    self.add(app == 0)
            elif name == "erf":
                self.add(app < 1, app > -1)
                if self.identical(S(arg), 0):
                    self.add(app == 0)
                self.add(z3.Implies(arg > 0, app > 0), z3.Implies(arg < 0, app < 0))
            elif name in ("sin", "cos"):
                self.add(app <= 1, app >= -1)
                sn, cs = UF["sin"](arg), UF["cos"](arg)
                self.add(sn * sn + cs * cs == 1)
                for k, val in half_pi:
                    if self.identical(S(arg), S(val)):
                        self.add(sn == [0, 1, 0, -1, 0][k], cs == [1, 0, -1, 0, 1][k])
        # relations between pairs
        for i, (n1, a1, p1) in enumerate(apps):
            for (n2, a2, p2) in apps[i + 1:]:
                pk = (n1, a1.get_id(), n2, a2.get_id())
                if pk in self.uf_axioms_done or a1.get_id() == a2.get_id():
                    continue
                self.uf_axioms_done.add(pk)
                trig = n1 in ("sin", "cos") and n2 in ("sin", "cos")
                if trig:
                    for (u, v) in ((a1, a2), (a2, a1)):
                        if self.identical(S(v), S(2 * u)):
                            su, cu = UF["sin"](u), UF["cos"](u)
                            self.add(UF["sin"](v) == 2 * su * cu, UF["cos"](v) == 2 * cu * cu - 1, su * su + cu * cu == 1)
                if n1 == n2 and self.identical(S(a1), S(a2)):
                    self.add(p1 == p2)
                if n1 == n2 == "erf" and self.identical(S(a1), S(-a2)):
                    self.add(p1 == -p2)
                if n1 == n2 == "log" and self.identical(S(a1 * a2), 1):
                    self.add(p1 == -p2)

    def identical(self, a, b):
        """a == b as rational functions of the inputs (abstract quotients expanded); decided by the normal form alone"""
        if self.mode != "sym":
            return bool(self.close(a, b))
        from .ratfun import TooBig
        try:
            r = self.rw_full.rewrite(lift_real(a) - lift_real(b) == 0 * PI_ZERO)
        except TooBig:
            return False
        self.rw_full.pop_divisors()
        return z3.is_true(r)

    def add(self, *cs):
        """add constraints to the path condition"""
        for c in cs:
            c = self._rewrite(c)
            self.pc.append(c)
            self.solver.add(c)

    def sign_of(self, e):
        """+1 / -1 if the sign of e is determined by the path condition, else 0"""
        es = z3.simplify(e)
        if z3.is_rational_value(es):
            n = es.numerator_as_long()
            return 1 if n > 0 else (-1 if n < 0 else 0)
        r, _, _ = self._check(e < 0)
        if r == "unsat":
            r2, _, _ = self._check(e == 0)
            return 1 if r2 == "unsat" else 0
        r, _, _ = self._check(e > 0)
        if r == "unsat":
            r2, _, _ = self._check(e == 0)
            return -1 if r2 == "unsat" else 0
        return 0

    def _check(self, *extra, timeout_ms=None, with_defs=False):
        extra = [self._rewrite(e) for e in extra]
        if self.logic:
            # non-incremental solver for the stated logic (z3's nlsat tactic is far stronger than the incremental core on NRA)
            s = z3.SolverFor(self.logic)
            s.set("timeout", timeout_ms if timeout_ms is not None else self.timeout_ms)
            for a in self.solver.assertions():
                s.add(a)
        else:
            s = self.solver
            if timeout_ms is not None:
                s.set("timeout", timeout_ms)
            s.push()
        for e in extra:
            s.add(e)
        if with_defs:
            for d in self.def_constraints:
                s.add(d)
        t = time.time()
        # watchdog: z3's own timeout is not always honoured inside nonlinear preprocessing; interrupt the context shortly after it
        import threading
        limit = (timeout_ms if timeout_ms is not None else self.timeout_ms) / 1000.0
        wd = threading.Timer(limit * 1.5 + 2.0, s.ctx.interrupt)
        wd.daemon = True
        wd.start()
        try:
            r = str(s.check())
        except z3.Z3Exception:
            r = "unknown"
        finally:
            wd.cancel()
        dt = time.time() - t
        m = s.model() if r == "sat" else None
        if not self.logic:
            s.pop()
            if timeout_ms is not None:
                s.set("timeout", self.timeout_ms)
        self.stats["queries"] += 1
        self.stats[r] += 1
        self.stats["solver_s"] += dt
        return r, m, dt

    def _external_unsat(self, extra, with_defs):
        """run /usr/bin/z3 (4.8.12) on the current path condition + extra; returns ('unsat'|'sat'|'unknown', seconds)"""
        import os
        import subprocess
        import tempfile
        t = time.time()
        s2 = z3.Solver()
        for a in self.solver.assertions():
            s2.add(a)
        s2.add(self._rewrite(extra))
        if with_defs:
            for d in self.def_constraints:
                s2.add(d)
        text = s2.to_smt2().replace("(set-info :status unknown)", "")
        reals_only = not self.ufs_used and all(z3.is_real(v) for v in self.inputs.values())
        if reals_only:
            text = "(set-logic QF_NRA)\n" + text
        fd, path = tempfile.mkstemp(suffix=".smt2", prefix="symx_")
        os.write(fd, text.encode())
        os.close(fd)
        res = "unknown"
        try:
            tmo = max(10, int(self.final_timeout_ms / 1000))
            out = subprocess.run(["/usr/bin/z3", "-T:%d" % tmo, path], capture_output=True, text=True, timeout=tmo + 10).stdout
            self.stats["external_queries"] = self.stats.get("external_queries", 0) + 1
            if "(error" in out:
                res = "unknown"
            else:
                first = out.strip().splitlines()[0] if out.strip() else "unknown"
                res = first if first in ("sat", "unsat") else "unknown"
        except Exception:
            res = "unknown"
        finally:
            os.unlink(path)
        return res, time.time() - t

    def branch(self, expr):
        if self.mode != "sym":
            raise HarnessError("symbolic branch in concrete mode")
        expr = z3.simplify(expr)
        if z3.is_true(expr):
            return True
        if z3.is_false(expr):
            return False
        if self.pos < len(self.prefix):
            d = self.prefix[self.pos]
            self.pos += 1
            self.add(expr if d else z3.Not(expr))
            return bool(d)
        rt, _, _ = self._check(expr)
        if rt == "unsat":
            d = False
        else:
            rf, _, _ = self._check(z3.Not(expr))
            if rf == "unsat":
                d = True
            else:
                self.worklist.append(self.prefix + [0])
                d = True
        self.prefix.append(1 if d else 0)
        self.pos += 1
        self.add(expr if d else z3.Not(expr))
        return d

    def choose(self, n, label=None):
        """nondeterministic choice in range(n), explored exhaustively (scheduler decisions etc.)"""
        if self.mode != "sym":
            seq = self.values.get("__prefix__") or []
            k = self._conc_choice
            self._conc_choice += 1
            return int(seq[k]) % max(n, 1) if k < len(seq) else 0
        if n <= 1:
            return 0
        if self.pos < len(self.prefix):
            d = self.prefix[self.pos]
            self.pos += 1
            self.choice_log.append(d)
            return d
        for alt in range(n - 1, 0, -1):
            self.worklist.append(self.prefix + [alt])
        self.prefix.append(0)
        self.pos += 1
        self.choice_log.append(0)
        return 0

    def concretize_int(self, s):
        """fork over the feasible values of a symbolic integer (list index, range bound, array size)"""
        e = z3.simplify(s.e)
        if z3.is_int_value(e):
            return e.as_long()
        for _ in range(64):
            r, m, _ = self._check()
            if r != "sat":
                raise PathAbort("no value")
            v = m.eval(e, model_completion=True).as_long()
            # prefer the smallest feasible values first: try v-1.. not needed; just fork on == v
            if self.branch(e == v):
                return v
        raise HarnessError("concretize_int: more than 64 values; bound the integer")

    # ---- inputs
    def real(self, name, lo=None, hi=None, pos=False, nonzero=False, neg=False):
        if self.mode == "conc":
            if name not in self.values and "__random__" in self.values:
                import random
                rng = self.values.setdefault("__rng__", random.Random(self.values["__random__"]))
                if lo is not None and hi is not None:
                    v = rng.uniform(float(lo) + 0.05 * (float(hi) - float(lo)), float(hi) - 0.05 * (float(hi) - float(lo))) if float(hi) - float(lo) < 1000 else rng.uniform(0.2, 3.0)
                elif pos or (lo is not None and float(lo) >= 0):
                    v = (float(lo) if lo is not None else 0.0) + rng.uniform(0.05, 3.0)
                elif neg or (hi is not None and float(hi) <= 0):
                    v = (float(hi) if hi is not None else 0.0) - rng.uniform(0.05, 3.0)
                else:
                    v = rng.uniform(-3.0, 3.0)
                self.values[name] = v
            if name not in self.values:
                # an input created after the point where the model was taken: any admissible value will do
                if lo is not None and hi is not None:
                    return (float(lo) + float(hi)) / 2
                if lo is not None:
                    return float(lo) + 1.0
                if hi is not None:
                    return float(hi) - 1.0
                return -1.0 if neg else (1.0 if pos else 0.5)
            return float(self.values[name])
        v = z3.Real(name)
        self.inputs[name] = v
        self.domains[name] = (lo, hi, pos, neg)
        b = z3.RealVal(16)
        self.nice.append(z3.And(v >= -b, v <= b))
        if pos:
            self.nice.append(v >= 1 / b)
        if neg:
            self.nice.append(v <= -1 / b)
        if lo is not None:
            self.add(v >= lift_real(lo))
        if hi is not None:
            self.add(v <= lift_real(hi))
        if pos:
            self.add(v > 0)
        if neg:
            self.add(v < 0)
        if nonzero:
            self.add(v != 0)
        return SymReal(v)

    def int(self, name, lo=None, hi=None):
        if self.mode == "conc":
            return int(self.values[name])
        v = z3.Int(name)
        self.inputs[name] = v
        if lo is not None:
            self.add(v >= lo)
        if hi is not None:
            self.add(v <= hi)
        return SymInt(v)

    def string(self, name, default=""):
        if self.mode == "conc":
            return str(self.values.get(name, default))
        v = z3.String(name)
        self.inputs[name] = v
        return v

    def symstr(self, name, default=""):
        """string usable as a dict key / list element by real code: == and != against str give SymBool (so `in` branches)"""
        if self.mode == "conc":
            return str(self.values.get(name, default))
        return SymStr(self.string(name))

    def bool(self, name):
        if self.mode == "conc":
            return bool(self.values[name])
        v = z3.Bool(name)
        self.inputs[name] = v
        return SymBool(v)

    def freshreal(self, name="t"):
        return z3.Real("%s!%d" % (name, next(self.fresh)))

    def sqrt(self, x):
        for h in self.sqrt_hints:
            # perfect-square hint: accepted when x - h*h normalises to the zero polynomial (divisors proved non-zero)
            if self.use_ratfun and self.identical(x, SymReal(h * h)):
                return abs(SymReal(h))
            if self.hint_solver:
                r, _, _ = self._check(x.e != h * h)
                if r == "unsat":
                    return abs(SymReal(h))
        if self.use_ratfun and self.identical(x, 0):
            return SymReal(z3.RealVal(0))
        for (xe, yv) in self.sqrt_memo:
            if xe.get_id() == x.e.get_id() or (self.use_ratfun and self.identical(SymReal(xe), x)):
                return SymReal(yv)
        y = self.freshreal("sqrt")
        self.add(y >= 0)
        self.add(y * y == x.e)
        self.sqrt_memo.append((x.e, y))
        self.sqrt_sq[y.get_id()] = x.e
        self._keep.append(y)
        return SymReal(y)

    # ---- assumptions / claims
    def assume(self, cond, what=""):
        if self.mode == "conc":
            if not bool(cond):
                raise ReplayPreconditionFailed(what or "assumption")
            return
        if isinstance(cond, (bool, numpy.bool_)):
            if not cond:
                raise PathAbort("assume False")
            return
        self.add(lift_bool(cond))

    def feasible(self):
        r, _, _ = self._check()
        return r != "unsat"

    def tag(self, t):
        """record a branch-family tag for the current path (reachability accounting)"""
        self.path_tags.append(t)

    def close(self, a, b, tol=None):
        """a == b (exact in sym mode; to tolerance in conc mode)"""
        if self.mode == "sym" or is_sym(a) or is_sym(b):
            if isinstance(a, SymInt) or isinstance(b, SymInt):
                if not isinstance(a, SymReal) and not isinstance(b, SymReal) and not isinstance(a, float) and not isinstance(b, float):
                    return SymBool(lift_int(a) == lift_int(b))
            return SymBool(lift_real(a) == lift_real(b))
        tol = tol or self.tol
        a = float(a)
        b = float(b)
        if a != a or b != b or abs(a) == math.inf or abs(b) == math.inf:
            return a == b
        return abs(a - b) <= tol * (1.0 + abs(a) + abs(b))

    def claim(self, name, cond, margin=None):
        """record an obligation.  sym: decide Not(cond) under the path condition."""
        c = self.claims.get(name)
        if c is None:
            c = self.claims[name] = Claim(name)
        if self.mode == "conc":
            ok = bool(cond)
            c.conc = ok if c.conc is None else (c.conc and ok)
            return ok
        c.paths += 1
        if c.domains is None and self.domains:
            c.domains = {n: [None if x is None else float(x) if not isinstance(x, bool) else x for x in d] for n, d in self.domains.items()}
        if isinstance(cond, (bool, numpy.bool_)):
            e = z3.BoolVal(bool(cond))
        else:
            e = lift_bool(cond)
        es = z3.simplify(e)
        if z3.is_true(es):
            c.held += 1
            c.trivial += 1
            return True
        if z3.is_false(es) and not self.pc and not self.inputs:
            # concrete failure on a path with no symbolic constraint (e.g. a pure scheduling path): no query needed
            c.violated += 1
            if len(c.models) < 3:
                c.models.append({"values": {"__prefix__": list(self.choice_log)}, "prefix": list(self.prefix[: self.pos]),
                                 "tags": list(self.path_tags)})
            return False
        if z3.is_false(es):
            # reachability witness / concrete failure: one feasibility query of the path condition, no model polishing
            r, m, dt = self._check(timeout_ms=self.timeout_ms, with_defs=bool(self.def_constraints))
            c.solver_s += dt
            if r == "unsat":
                c.held += 1
                return True
            if r == "unknown":
                c.unknown += 1
                return None
            c.violated += 1
            if len(c.models) < 3:
                vals = {n: model_value(m, v) for n, v in self.inputs.items()}
                vals["__prefix__"] = list(self.choice_log)
                c.models.append({"values": vals, "prefix": list(self.prefix[: self.pos]), "tags": list(self.path_tags)})
            return False
        neg = self._rewrite(z3.Not(e))
        if z3.is_false(z3.simplify(neg)):
            # decided by the polynomial normal form (divisors proved non-zero by the solver)
            r, m, dt = self._check(neg)
            c.held += 1
            c.trivial += 0
            self.stats["normal_form_decided"] = self.stats.get("normal_form_decided", 0) + 1
            return True
        wd = bool(self.def_constraints)
        if wd:
            # phase 1: abstract quotients unconstrained (over-approximation): unsat here is unsat with the definitions too
            r, m, dt = self._check(neg, timeout_ms=min(self.final_timeout_ms, 10000))
            c.solver_s += dt
            if r == "unsat":
                c.held += 1
                self.stats["held_abstractly"] = self.stats.get("held_abstractly", 0) + 1
                return True
            from .ratfun import TooBig
            try:
                negf = self.rw_full.rewrite(z3.Not(e))
                self.rw_full.pop_divisors()
                if z3.is_false(z3.simplify(negf)):
                    c.held += 1
                    self.stats["normal_form_decided"] = self.stats.get("normal_form_decided", 0) + 1
                    return True
            except TooBig:
                pass
        r, m = None, None
        guided_model = False
        if self.external_first:
            r3, dt = self._external_unsat(neg, wd)
            c.solver_s += dt
            if r3 == "unsat":
                c.held += 1
                self.stats["held_by_external_z3"] = self.stats.get("held_by_external_z3", 0) + 1
                return True
            if self.external_only:
                # undecided: reported as unknown (the runner then looks for a concretely failing input; never "held")
                c.unknown += 1
                return None
        if self.guided_tries:
            gneg = [neg] + ([lift_bool(margin)] if margin is not None else [])
            r, m, dt = self._guided(gneg, self.guided_tries, wd)
            c.solver_s += dt
            guided_model = r == "sat"
        if r != "sat":
            r, m, dt = self._check(neg, timeout_ms=self.final_timeout_ms, with_defs=wd)
            c.solver_s += dt
            if r == "unsat":
                c.held += 1
                return True
            if r == "unknown":
                # second opinion from the other z3 configuration (incremental core <-> non-incremental nlsat tactic)
                saved = self.logic
                alt = None if saved else ("QF_NRA" if not self.ufs_used and all(z3.is_real(v) for v in self.inputs.values()) else None)
                if alt != saved:
                    self.logic = alt
                    try:
                        r, m, dt = self._check(neg, timeout_ms=self.final_timeout_ms, with_defs=wd)
                    finally:
                        self.logic = saved
                    c.solver_s += dt
                    self.stats["second_opinion_queries"] = self.stats.get("second_opinion_queries", 0) + 1
                    if r == "unsat":
                        c.held += 1
                        return True
            if r == "unknown":
                # third opinion: the system z3 binary (4.8.12) on the dumped SMT-LIB2 query; only 'unsat' is used
                r3, dt = self._external_unsat(neg, wd)
                c.solver_s += dt
                if r3 == "unsat":
                    c.held += 1
                    self.stats["held_by_external_z3"] = self.stats.get("held_by_external_z3", 0) + 1
                    return True
            if r == "unknown":
                r, m, dt = self._guided([neg] + ([lift_bool(margin)] if margin is not None else []), 24, wd)
                c.solver_s += dt
                guided_model = r == "sat"
                if r != "sat":
                    c.unknown += 1
                    return None
        # sat: try to obtain a model with a margin and moderate magnitudes (more robust under float replay)
        attempts = []
        if guided_model:
            margin = None
            attempts = None
        if margin is not None:
            attempts.append([neg, lift_bool(margin)] + self.nice)
            attempts.append([neg, lift_bool(margin)])
        if attempts is not None:
            attempts.append([neg] + self.nice)
        for extra in attempts or []:
            r2, m2, dt2 = self._check(*extra, timeout_ms=min(self.final_timeout_ms, 10000), with_defs=wd)
            c.solver_s += dt2
            if r2 == "sat":
                m = m2
                break
        c.violated += 1
        if len(c.models) < 3:
            vals = {n: model_value(m, v) for n, v in self.inputs.items()}
            vals["__prefix__"] = list(self.choice_log)
            doms = {n: [None if x is None else float(x) if not isinstance(x, bool) else x for x in d] for n, d in self.domains.items()}
            c.models.append({"values": vals, "prefix": list(self.prefix[: self.pos]), "tags": list(self.path_tags), "domains": doms})
        return False

    def witness(self, name):
        """reachability twin: records that this point is reachable with a satisfiable path condition"""
        return self.claim("witness:" + name, False)

    def _guided(self, neg, tries, with_defs=False):
        """counterexample search with most inputs pinned to moderate rationals (each try is a solver query; a model is
        only ever accepted from the solver and is replayed afterwards)"""
        import random
        rng = random.Random(hash((len(self.pc), tries)) & 0xFFFF)
        names = [n for n, v in self.inputs.items() if z3.is_real(v)]
        total = 0.0
        if not names:
            return "unknown", None, total
        for k in range(tries):
            pins = []
            nfree = 0 if k % 3 == 2 else (1 if k % 2 == 0 else 2)
            free = set(rng.sample(names, min(len(names), nfree))) if names and nfree else set()
            for n in names:
                if n in free:
                    continue
                lo, hi, pos, ng = self.domains.get(n, (None, None, False, False))
                if lo is not None and hi is not None and float(hi) - float(lo) > 1000.0:
                    # very wide range (e.g. a root bracket 1e-15..1e10): use moderate values, huge rationals can stall nlsat
                    cands = [Fraction(a, b) for a in range(1, 13) for b in (1, 2, 3, 4) if float(lo) < a / b < float(hi)]
                    val = rng.choice(cands) if cands else frac_of_float((float(lo) + float(hi)) / 2)
                elif lo is not None and hi is not None:
                    lo_f, hi_f = frac_of_float(float(lo)), frac_of_float(float(hi))
                    val = lo_f + (hi_f - lo_f) * Fraction(rng.randint(1, 11), 12)
                elif pos or (lo is not None and float(lo) >= 0):
                    base = frac_of_float(float(lo)) if lo is not None else 0
                    val = base + Fraction(rng.randint(1, 12), rng.choice([2, 3, 4]))
                elif ng or (hi is not None and float(hi) <= 0):
                    base = frac_of_float(float(hi)) if hi is not None else 0
                    val = base - Fraction(rng.randint(1, 12), rng.choice([2, 3, 4]))
                else:
                    val = Fraction(rng.randint(-12, 12), rng.choice([2, 3, 4]))
                pins.append(self.inputs[n] == z3frac(val))
            r, m, dt = self._check(*(list(neg) + pins), timeout_ms=2000, with_defs=with_defs)
            total += dt
            if r == "sat":
                return r, m, total
        return "unknown", None, total

    def claim_eq(self, name, a, b):
        """claim a == b with a margin query for the counterexample"""
        if self.mode == "conc":
            return self.claim(name, self.close(a, b))
        if isinstance(a, SymInt) or isinstance(b, SymInt) or (isinstance(a, int) and isinstance(b, int)):
            try:
                return self.claim(name, SymBool(lift_int(a) == lift_int(b)))
            except TypeError:
                pass
        ea, eb = lift_real(a), lift_real(b)
        if self.def_constraints and self.identical(a, b):
            c = self.claims.get(name)
            if c is None:
                c = self.claims[name] = Claim(name)
            c.paths += 1
            c.held += 1
            self.stats["normal_form_decided"] = self.stats.get("normal_form_decided", 0) + 1
            return True
        d = ea - eb
        margin = SymBool(z3.Or(d > z3.RealVal("1/100"), d < -z3.RealVal("1/100")))
        return self.claim(name, SymBool(ea == eb), margin=margin)

    # ---- driver
    def explore(self, body):
        """run body(self) once per feasible path; returns list of per-path outcomes"""
        outcomes = []
        if self.mode == "conc":
            self._start_path([])
            try:
                r = body(self)
                outcomes.append(("ok", r))
            except ReplayPreconditionFailed as e:
                outcomes.append(("precondition", str(e)))
            except Exception as e:  # noqa
                outcomes.append(("exc", e))
            self.stats["paths"] = 1
            return outcomes
        while self.worklist:
            if self.stats["paths"] + self.stats["aborted"] >= self.max_paths:
                self.stats["budget_exhausted"] = True
                break
            prefix = self.worklist.pop()
            self._start_path(prefix)
            try:
                r = body(self)
                outcomes.append(("ok", r))
            except PathAbort:
                self.stats["aborted"] += 1
                continue
            except HarnessError:
                raise
            except Exception as e:  # noqa
                self.stats["exceptions"] += 1
                outcomes.append(("exc", e))
            self.stats["paths"] += 1
            self.path_log.append({"prefix_len": len(self.prefix), "tags": list(self.path_tags),
                                  "outcome": outcomes[-1][0] if outcomes[-1][0] == "ok" else type(outcomes[-1][1]).__name__})
        return outcomes


def new_env(**kw):
    global ENV
    ENV = Env(**kw)
    return ENV


# helpers used by harnesses ------------------------------------------------------------------
def sand(*xs):
    r = None
    for x in xs:
        r = x if r is None else (r & x)
    return r


def sor(*xs):
    r = None
    for x in xs:
        r = x if r is None else (r | x)
    return r


def implies(a, b):
    if isinstance(a, (bool, numpy.bool_)):
        return b if a else True
    return SymBool(z3.Implies(lift_bool(a), lift_bool(b)))


def ite(c, a, b):
    if isinstance(c, (bool, numpy.bool_)):
        return a if c else b
    if isinstance(a, (SymInt, int)) and isinstance(b, (SymInt, int)) and not isinstance(a, bool):
        return SymInt(z3.If(lift_bool(c), lift_int(a), lift_int(b)))
    return SymReal(z3.If(lift_bool(c), lift_real(a), lift_real(b)))
