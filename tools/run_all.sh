#!/bin/bash
# run every claimed check (tier $1, default quick) and summarise
cd /verif
T=${1:-quick}
for p in $(python3 -c "import json; print(' '.join(c['property_id'] for c in json.load(open('MANIFEST.json'))['checks']))"); do
  S=$(date +%s); ./check $p --tier $T > /tmp/all_$p.log 2>&1; rc=$?; E=$(date +%s)
  echo "$p rc=$rc $((E-S))s $(tail -1 /tmp/all_$p.log | cut -c1-150)"
done
