#!/usr/bin/env python3
"""tools/keep_seeded.py <PID> <outdir> <name> <caught: yes/no> "<which checks/claims caught it>"  -> /verif/seeded/<name>/"""
import json, os, shutil, sys
pid, out, name, caught, how = sys.argv[1:6]
dst = os.path.join("/verif/seeded", name)
os.makedirs(dst, exist_ok=True)
for f in ("patch.diff", "demo.py"):
    shutil.copy(os.path.join(out, f), dst)
meta = json.load(open(os.path.join(out, "meta.json")))
def rd(f):
    p = os.path.join(out, f)
    return open(p).read()[-600:] if os.path.exists(p) else None
meta["verified_by_me"] = {
    "demo_with_patch_tail": rd("demo_with.log"), "demo_without_patch_tail": rd("demo_without.log"),
    "pytest_with_patch": rd("pytest.log"), "check_output": rd("check.log"),
    "procedure": "demo run in the sub-agent scratch worktree with and without the patch (git apply / git apply -R); pytest there with the patch; "
                 "patch applied to a scratch worktree of /repo HEAD, ./check %s --tier quick run against it (PYTHONPATH), worktree removed" % pid}
meta["caught_by_quick_check"] = caught
meta["caught_how"] = how
json.dump(meta, open(os.path.join(dst, "meta.json"), "w"), indent=1)
print("kept", dst)
