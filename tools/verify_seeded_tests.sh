#!/bin/bash
# confirm that each kept seeded change passes the pinned test suite: scratch worktree, apply, pytest, record in meta.json
WT=/tmp/wt/verify_$$
git -C /repo worktree add -q --detach $WT HEAD
for d in "$@"; do
  cd $WT && git checkout -q -- . && git apply $d/patch.diff
  R=$(PYTHONPATH=$WT /venv/bin/python -m pytest -q -p no:cacheprovider --timeout=900 -n 6 2>&1 | tail -1)
  echo "$d: $R"
  python3 - "$d" "$R" <<'PY'
import json,sys
p=sys.argv[1]+"/meta.json"; m=json.load(open(p)); m.setdefault("verified_by_me",{})["pytest_with_patch"]=sys.argv[2]; json.dump(m,open(p,"w"),indent=1)
PY
done
cd /; git -C /repo worktree remove --force $WT
