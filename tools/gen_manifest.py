#!/usr/bin/env python3
"""Regenerate /verif/MANIFEST.json from the table below (single source of truth for what is claimed)."""
import json
import os

V = os.path.dirname(os.path.dirname(os.path.abspath(__file__)))

TECH = "symbolic execution of the real Python code over z3 terms (symx), SMT (z3) decides each obligation per path, counterexample replay"

CLAIMED = {
    "C01": dict(text="the chain that puts a grid point on its flux surface, link by link on the real code: followPerpendicular ordering for every position of the start psi (solve_ivp = flow contract), contour assembly slice of MeshRegion.__init__, fillRZ index map and X-point pinning, Newton acceptance test, refinePoint dispatch; the problem handed to the integrator (RHS, initial state); getRZBoundary; collection of region arrays into the global arrays and the file variable names for every location/corner variant",
                note="CONDITIONAL on the numerical kernels meeting their contracts (solve_ivp flow, psi a function); accuracy/convergence of integration, Newton and splines not decided; psivals lists <= 5, 3x3 assembly, nx=1 ny=2 fillRZ",
                tech=TECH + "; uninterpreted functions for psi and the flow; AST slice"),
    "C02": dict(text="real calcMetric/geometry2/calcBeta/geometry1 run on symbolic reals; z3 (after exact rational-function normalisation) shows every metric identity, the closed forms, the displacement scalar products and the sign logic for all real inputs of the stated domain; the displacement obligations take the grid stencil and the grad(psi) direction as inputs and run the REAL calcBeta (no sign convention assumed); geometry1 with the equilibrium functions as uninterpreted functions of the evaluation point",
                note="reals not IEEE doubles; DDX/calc_curvature/calcHy stubbed; hy, beta, Bp taken as given; 1x1 region (element-wise formulas); locally linear psi for the displacement obligations",
                tech=TECH + "; QF_NRA"),
    "C03": dict(text="real geometry1 on an uninterpreted equilibrium, real interpolant closures, and AST slices of TokamakEquilibrium.__init__ (sign/2pi options, pressure extrapolation, profile-spline set-up and evaluation abscissa, scalars) plus the pressure-reflection closures of the real createRegionObjects, all on symbolic values; z3 decides each stated relation; fpolprime = d(fpol)/dpsi by AD through the real methods; header scalars written to the file",
                note="spline contract stubs; exp uninterpreted; bounded array sizes (2x2, 3 knots); that O/X-points are right is C19; spline accuracy not decided",
                tech=TECH + "; AST slices of the current source"),
    "C04": dict(text="mechanism of orthogonality on the real code: one followPerpendicular call per poloidal index with points stored at the radial index of their psi (shared with C01), integrated field = grad psi/|grad psi|^2, real calcBeta gives sinBeta=0 when the radial displacement is parallel to grad psi, orthogonal metric branch has no x-y off-diagonals; f_R/f_Z evaluate the interpolant at the point they are given (real clip semantics, symbolic grid extent); ODE right-hand side and initial state at the integrator",
                note="'to the tolerance of the integration' and the second-order remainder are not decided; solve_ivp flow contract assumed; X-point cells excluded",
                tech=TECH),
    "C05": dict(text="real calcHy and calcPoloidalDistance on open and periodic region chains with symbolic contour distances; real FineContour.calcDistance (chord sum) and getDistance (interpolation between bracketing nodes); z3 decides each arc-length relation, positivity, monotonicity, continuity across joins, totals; reversal of contours and total distances",
                note="contour distances are symbolic strictly increasing arrays (that they are the true arc length, equaliseSpacing convergence and the quadratic convergence in Nfine are not decided); contour distance offsets arbitrary (also for chain-internal regions); the y-group order is decided on the real constructor; nx=1, ny=2",
                tech=TECH),
    "C06": dict(text="real calcZShift on open and periodic region chains with quadrature/interpolation contract stubs and the real integrand closure; real DDX (with dx from the real geometry1) on a radial stack in all connection cases; real geometry2/calcMetric wiring; z3 decides zero at chain start, continuity across joins, ShiftAngle, integrand = Bt/(R|Bp|), DDX stencils and finiteness",
                note="cumulative_trapezoid and interp1d replaced by contracts (T[0]=0, exact at nodes); 2-region chains, nx<=2, ny=1; trapezoid accuracy and 2*pi*q not decided",
                tech=TECH),
    "C07": dict(text="real calc_curvature on a stub region over the real field helper chain; reference curl(b/B) from forward-mode AD of the real Bp_R, Bp_Z, Bzeta, B2; z3/normal form decide the three contravariant components and bxcv for all values of psi's derivatives, fpol, fpol', R, hy, tanBeta, both signs of Bp; non-orthogonal case with beta from the real calcBeta and grad(y) as the dual basis vector of the actual grid; the 'x-y derivatives' formulation with exact directional derivatives equals the R-Z formulation; DDY stencils",
                note="RectBivariateSpline contract (table of derivatives); Bp^2=|grad psi|^2/R^2, Bt=fpol/R assumed at the point; x-y-derivative formulation and smoothing not decided",
                tech=TECH + "; forward-mode AD (jets), exact rational-function normal form"),
    "C08": dict(text="real topology descriptors, Mesh/BoutMesh index code and the AST slice of writeGridfile run with symbolic integer sizes; z3 (LIA) decides tiling, connection symmetry, BOUT++ decoding of ixseps/jyseps == hypnotoad adjacency and index ordering for all sizes >= 1; circular core/limiter and isolated X-point (TORPEX) topologies; chi NaN mask; theta zero/continuity/2pi from the index expressions of the source; getRZBoundary and the global index map of the output arrays",
                note="numerics (findLegs, coreRegionToRegion, segmentsWithPsivals) stubbed; BOUT++ reference semantics written in the harness; guards enumerated 0..4; coordinates on shared edges not decided beyond: y-edges after getRZBoundary, one global x index and one surface direction per shared contour (non-orthogonal grids: a known finding), X-point markers, y-group order",
                tech=TECH + "; QF_LIA over unbounded sizes"),
    "C09": dict(text="real getSmoothMonotonicGridFunc (linear, cubic, erf, trig cases) and make1dGrid on symbolic reals, derivatives by jets through the real closures; z3 decides end values, end gradients, zero second derivative at separatrix ends, monotonicity on [0,n] and resolution nesting for all n>=1 and all admissible parameters; descriptor hands the same dpsidi_sep to both sides of each separatrix; psi-decreasing descriptors; segmentsWithPsivals wiring; core/SOL/PFR limits from psi_*/psinorm_* options",
                note="brentq replaced by a root contract; exp/erf/sin/cos uninterpreted with sound axioms; Si/Ci case only b>0; erf nesting not decided; reals not doubles",
                tech=TECH + "; QF_NRA/UF with forward-mode AD (jets)"),
    "C10": dict(text="real monotonic/sqrt/linear poloidal spacing constructors evaluated through numpy.piecewise on symbolic reals and jets; z3 decides s(0)=0, s(N)=L, end gradients in normalised index, straight-line extrapolations, positivity of ds/di (convex case), resolution nesting; _checkMonotonic and get_distance guard contracts; getRegridded end points; spacing parameters by region kind (X-point ends share parameters, wall ends use their own leg's) and their roles in the constructors",
                note="N = w^2 N_norm parametrisation; brentq -> root contract; log/exp uninterpreted; interior monotonicity of sqrt family and concave case not decided; reals not doubles",
                tech=TECH + "; QF_NRA/UF with forward-mode AD (jets)"),
    "C11": dict(text="index bookkeeping that puts the wall point at the contour's start/end index (real PsiContour.insert with symbolic indices incl. negative endInd; real addPointAtWallToContours for all intersection indices and proximity branches), penalty_mask on the real calcPenaltyMask/find_intersections for a rectangular wall (thorough tier), anticlockwise stored wall for every symbolic polygon; real _find_intersection with a symbolic crossing oracle; penalty mask promoted to the quick tier (+ general/slanted walls thorough); closed wall array and closed_wall_R/Z written from the right columns",
                note="_find_intersection stubbed by admissible index/point values; calc_distance arbitrary; wall-crossing predicate is C20; that the refined wall point stays on the wall and that cells between targets are inside the wall are not decided",
                tech=TECH + "; LIA over symbolic indices, explorer choice points for index combinations"),
    "C12": dict(text="GUARD CONTRACTS AND OPTION FILTERS (not whole-pipeline runs): for each fail-loud guard (make1dGrid, _checkMonotonic, get_distance, calcHy, Jacobian self-check, Bp-sign check, makeConnection, Mesh option consistency, DDX finiteness) 'returns => postcondition' / 'raises only if the precondition is violated' on the real code with symbolic data; the unused-option filter of the command-line scripts on a symbolic option name (z3 strings) and the shipped reference settings; the Jacobian check as last guard against hy <= 0 at every entry; documented variables have a writer; geometry stage order",
                note="'shipped examples generate', presence/shape of output variables, 'no cell folded over', optionsfactory validation and the scripts' unused-option filter are whole-pipeline/I-O facts and are NOT claimed",
                tech=TECH),
    "C13": dict(text="real ParallelMap on a model of multiprocessing; every interleaving of queue operations within the bound is explored by the path explorer, the failing task index and the arrival permutation are z3 integers; two symbolic failing indices (which exception reaches the caller), a further call after as many failures as workers, equilibrium functions handed to tasks",
                note="queues are reliable FIFOs, processes run only when scheduled, dill = identity, tasks pure; 2-3 workers, 1-3 tasks, <= 1 failing task",
                tech="path exploration of the real code on a scheduler model (schedules = explorer choice points) with symbolic failing index / arrival permutation decided by z3 (LIA); replay on the model and on real multiprocessing"),
    "C14": dict(text="the 'does not modify the caller's inputs / does not depend on earlier builds through them' clauses only: 'building an equilibrium does not modify the caller's input arrays' - the constructor's option-handling statements (AST slice) run on object arrays of symbols for all flag combinations; the caller's arrays are compared element-for-element with their original symbolic contents; option handling + profile-spline set-up run twice on the caller's same arrays (psi1D increasing/decreasing); wall list, settings dictionaries, R1D/Z1D unmodified",
                note="the remaining clauses of C14 (run-to-run identity, YAML/CLI reproducibility, hidden state) are I/O and whole-pipeline facts outside solver-based checking and are NOT claimed; the comparison is structural (term identity), no arithmetic reasoning is needed",
                tech="symbolic execution of an AST slice of the real constructor on z3-term payloads; structural comparison of the caller's arrays"),
    "C16": dict(text="mirror symmetry of the real topology descriptors and index code (LSN<->USN, LDN<->UDN, CDN) over symbolic sizes (LIA), and sign / 2pi-scaling equivariance of the real geometry2+calcMetric outputs under psi->-psi, fpol->-fpol, psi->psi/k according to each component's tensor character; descriptors under psi -> -psi for five topologies; constructor option signs; non-orthogonal field reversal with the real calcBeta on the same grid points",
                note="equality of the actual R,Z positions of mirrored grids and 'positions unchanged under field reversal' need the numerical pipeline and are not decided; inhomogeneous components (g33, g_22) excluded from the scaling claim",
                tech=TECH + "; LIA + exact rational-function normal form"),
    "C17": dict(text="reader pattern and writer formats read from the source and decided as z3 regular-expression/string queries; real write/read executed on symbolic payloads for layout/order; header widths decided in LIA (model validated against the real code each run); read_geqdsk field mapping; header model follows the reader's handling of completely filled i4 fields (probed on the real code each run)",
                note="C printf %E language model; injective token pair for f2s/float; bounded sizes for layout; 2-digit exponents",
                tech=TECH + "; z3 sequences/regex, LIA"),
    "C18": dict(text="real spline-branch closures, real helper chain, real DCT_2D derivative methods compared with forward-mode AD of the real value functions; div B = 0; dispatch of multi-location arguments; closure arguments under real clip; DCT constructor + node reproduction; DCT derivative methods up to 5x4 with nR != nZ; CircularEquilibrium analytic derivatives vs AD",
                note="interpolant contract (returns partial derivatives of one function); point inside the box; DCT 2x2/3x2 coefficients; node reproduction and inter-method agreement not decided",
                tech=TECH + "; forward-mode AD (jets), exact rational-function normal form"),
    "C19": dict(text="SELECTION LOGIC AND THE REFINEMENT LOOP'S CONTRACT (not the grid search): AST slices of find_critical (Hessian-determinant classification on the 5x5 stencil for a general quadratic psi; de-duplication, primary O-point, X-point ordering), of makeRegions (single/double-null decision with psinorm_sol and inside-wall predicate) and of findLegs (inner/outer labelling) on symbolic candidates; the Newton refinement loop of find_critical (acceptance only where Br^2+Bz^2<atol, true Jacobian by AD, step solves J d = B, at most two iterations)",
                note="that every critical point is found once and to tolerance (grid search + Newton on a compiled spline) is NOT decided; O-X line test reduced to 3 samples; inside_wall arbitrary predicate",
                tech=TECH + "; AST slices of the current source"),
    "C20": dict(text="real find_intersections/closest_approach/polygons.* run on symbolic real coordinates; every path of the slope-class/sort/range logic explored; z3 (QF_NRA) compares with the exact parametric solution; polygons.intersect: meaning of one edge-pair test on open polylines (full geometry) plus which edge pairs are tested for mixed closed/open polylines; wallIntersection dispatch",
                note="reals not doubles; coordinates in [-8,8]; 1 wall edge x 1 segment (edges are processed element-wise); polygons <= 5 vertices; completeness away from near-parallel configurations",
                tech=TECH + "; QF_NRA with lazy quotient abstraction"),
}

NOT_YET = {
}

NA = {
    "C15": "history independence of redistributePoints is a statement about the fixed point of iterative floating-point SciPy code (FineContour refinement, interp1d, Newton/solve_ivp); with those stubbed by contracts independence is assumed, not shown; the remaining glue has no arithmetic or index logic to decide (DESIGN.md section 4)",
}

ALL = ["C%02d" % i for i in range(1, 21)]


def main():
    checks = []
    for pid in ALL:
        if pid in CLAIMED and os.path.exists(os.path.join(V, "harness", pid.lower() + ".py")):
            c = CLAIMED[pid]
            checks.append({
                "property_id": pid, "quick_cmd": "./check %s --tier quick" % pid, "thorough_cmd": "./check %s --tier thorough" % pid,
                "evidence_file": "/verif/evidence/%s.json" % pid, "replay_cmd_template": "./check %s --replay {path}" % pid, "engine": "symx",
                "level_claimed": {"category": "other", "text": "bounded symbolic execution + SMT: " + c["text"], "design_ref": "DESIGN.md section 3, " + pid},
                "level_note": c["note"], "technique": c["tech"]})
    claimed = {c["property_id"] for c in checks}
    na = []
    for pid in ALL:
        if pid in claimed:
            continue
        na.append({"property_id": pid, "reason": NA.get(pid) or NOT_YET.get(pid) or "check not built yet (work in progress; no claim is made for this property)"})
    m = {
        "version": 1, "setup_cmd": "./setup.sh",
        "hooks": {"guard": "HYPNOTOAD_VERIF",
                  "enable": "no hooks in /repo: checks rebind module-level names (numpy, scipy entry points, multiprocessing) of the imported hypnotoad modules at run time; the guard name is reserved and unused",
                  "baseline_off_cmd": "cd /repo && /venv/bin/python -m pytest -ra -q -p no:cacheprovider --timeout=900 --continue-on-collection-errors",
                  "source_commits": [], "add_only": True},
        "engines": [{"name": "symx", "path": "/verif/symx", "serves_properties": sorted(claimed),
                     "kind_free_text": "symbolic execution of the real hypnotoad functions on z3 terms stored in numpy object arrays; path exploration by re-execution; exact rational-function normal form + z3 decide each obligation per path; counterexamples replayed with floats on the same code"}],
        "checks": checks, "not_applicable": na,
        "notes": "Every check: exit 0 held (KNOWN-FINDING lines for entries of known_findings.json), 1 VIOLATION (replayed), 2 inconclusive. fix: commits in /repo are listed in known_findings.json with status=fixed.",
    }
    with open(os.path.join(V, "MANIFEST.json"), "w") as f:
        json.dump(m, f, indent=1)
    print("claimed:", sorted(claimed), "not claimed:", [x["property_id"] for x in na])


if __name__ == "__main__":
    main()
