#!/bin/bash
# every check must at least load its harness module when it is the entry point (catches import cycles between harness modules)
cd /verif; rc=0
for p in $(python3 -c "import json; print(' '.join(c['property_id'] for c in json.load(open('MANIFEST.json'))['checks']))"); do
  out=$(VERIF_EVIDENCE_DIR=$(mktemp -d /tmp/verif_smoke.XXXX) ./check $p --only __no_such_obligation__ 2>&1 | tail -1)
  case "$out" in "$p tier="*) ;; *) echo "IMPORT PROBLEM $p: $out"; rc=1;; esac
done
rm -rf /tmp/verif_smoke.*; exit $rc
