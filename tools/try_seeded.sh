#!/bin/bash
# usage: tools/try_seeded.sh <PID> <worktree> <outdir>   : verify a sub-agent's seeded change and run the check against it
# 1. demo fails with the patch, passes without (in the worktree)  2. pytest passes with the patch (in the worktree)
# 3. apply the patch to /repo, run ./check PID, undo
PID=$1; WT=$2; OUT=$3
cd $WT || exit 9
# (git stash is shared between worktrees of one repository: never use it here)
git checkout -q -- . ; git apply $OUT/patch.diff || { echo "patch.diff does not apply in $WT"; exit 7; }
PYTHONPATH=$WT timeout 900 /venv/bin/python $OUT/demo.py > $OUT/demo_with.log 2>&1; RW=$?
git apply -R $OUT/patch.diff
PYTHONPATH=$WT timeout 900 /venv/bin/python $OUT/demo.py > $OUT/demo_without.log 2>&1; RWO=$?
git apply $OUT/patch.diff
echo "demo: with patch rc=$RW, without rc=$RWO"
if [ "$4" != "notests" ]; then
  PYTHONPATH=$WT /venv/bin/python -m pytest -q -p no:cacheprovider --timeout=900 -n 6 2>&1 | tail -1 > $OUT/pytest.log
  echo "pytest with patch: $(cat $OUT/pytest.log)"
fi
cd /verif
# run the check against a fresh worktree of /repo's HEAD with the patch applied (PYTHONPATH takes precedence over the
# editable install), so that /repo itself is never modified and background checks on it are not disturbed
CW=/tmp/wt/_try_$$; rm -rf $CW; git -C /repo worktree add -q --detach $CW HEAD || exit 8
git -C $CW apply $OUT/patch.diff || { echo "patch does not apply to /repo HEAD"; git -C /repo worktree remove --force $CW; exit 8; }
START=$(date +%s)
PYTHONPATH=$CW VERIF_EVIDENCE_DIR=$OUT/evidence ./check $PID --tier ${TIER:-quick} > $OUT/check.log 2>&1; RC=$?
END=$(date +%s)
git -C /repo worktree remove --force $CW
echo "check $PID rc=$RC in $((END-START))s"; grep -E "^VIOLATION|^  obligation|^INCONCLUSIVE|tier=" $OUT/check.log | cut -c1-220 | head -12
