#!/bin/bash
# For every finding of known_findings.json with status=fixed: make a scratch worktree of /repo at the commit BEFORE its fix, run the quick check of
# its property against it and expect exit 1 with a VIOLATION of the recorded obligation ("a fixed entry suppresses nothing").  /repo is not touched.
# usage: tools/run_fixed_return.sh [id-filter]
cd /verif
python3 - "$1" <<'PY' > /tmp/_fixed_list.txt
import json, sys
flt = sys.argv[1] if len(sys.argv) > 1 else ""
for f in json.load(open("known_findings.json"))["findings"]:
    if f["status"] == "fixed" and flt in f["id"]:
        print(f["id"], f["property"], f["commit"], f["obligation"])
PY
while read id pid commit ob; do
  CW=/tmp/wt/_fx_$id; rm -rf $CW
  git -C /repo worktree add -q --detach $CW ${commit}~1 2>/dev/null || { echo "$id: cannot check out ${commit}~1"; continue; }
  PYTHONPATH=$CW VERIF_EVIDENCE_DIR=/tmp/wt/_fx_evidence ./check $pid --tier quick > /tmp/fixed_$id.log 2>&1; rc=$?
  n=$(grep -c '^VIOLATION' /tmp/fixed_$id.log)
  echo "$id: before ${commit}: rc=$rc, $n VIOLATION lines (recorded obligation: $ob)"
  git -C /repo worktree remove --force $CW
done < /tmp/_fixed_list.txt
rm -rf /tmp/wt/_fx_evidence /tmp/_fixed_list.txt
