#!/bin/bash
# regression of the machinery: for every kept seeded change, make a scratch worktree of /repo's HEAD with the change applied,
# run the quick check of its property against it (PYTHONPATH precedes the editable install), remove the worktree;
# expect exit 1 + VIOLATION.  /repo itself is never modified.   usage: tools/run_seeded.sh [name-filter]
cd /verif
mkdir -p /tmp/wt
for d in seeded/*/; do
  n=$(basename $d); pid=${n%%-*}
  [ -n "$1" ] && [[ "$n" != *$1* ]] && continue
  CW=/tmp/wt/_seed_$n; rm -rf $CW; git -C /repo worktree add -q --detach $CW HEAD || continue
  if git -C $CW apply /verif/${d}patch.diff; then
    S=$(date +%s); PYTHONPATH=$CW VERIF_EVIDENCE_DIR=/tmp/wt/_seed_evidence ./check $pid --tier quick > /tmp/seeded_$n.log 2>&1; rc=$?; E=$(date +%s)
    echo "$n: rc=$rc $((E-S))s $(grep -c '^VIOLATION' /tmp/seeded_$n.log) violations"
  else
    echo "$n: patch does not apply"
  fi
  git -C /repo worktree remove --force $CW
done
rm -rf /tmp/wt/_seed_evidence
