#!/bin/bash
# regression of the machinery: apply every kept seeded change to /repo, run the quick check of its property, undo; expect exit 1 + VIOLATION
cd /verif
git -C /repo diff --quiet || { echo "/repo is dirty"; exit 9; }
for d in seeded/*/; do
  n=$(basename $d); pid=${n%%-*}
  [ -n "$1" ] && [[ "$n" != *$1* ]] && continue
  git -C /repo apply /verif/${d}patch.diff || { echo "$n: patch does not apply"; continue; }
  S=$(date +%s); ./check $pid --tier quick > /tmp/seeded_$n.log 2>&1; rc=$?; E=$(date +%s)
  git -C /repo checkout -- .
  echo "$n: rc=$rc $((E-S))s $(grep -c '^VIOLATION' /tmp/seeded_$n.log) violations"
done
